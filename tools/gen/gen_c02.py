#!/usr/bin/env python3
"""Generate the multi-borrow harness list of kani/src/c02.rs: one harness per tuple *type*."""
import itertools, os
T = "ABCD"
lines = []
def emit(tup, tier):
    name = "h_c02_multi_" + "".join(tup).lower()
    distinct = len(set(tup)) == len(tup)
    tys = ", ".join(tup)
    lines.append('// @h tier=%s bound="tuple type (%s) over a registry holding A,B,C,D; symbolic values" unwind=%d memsafe=1 cost=2' % (tier, tys, len(tup) + 3))
    uw = 7
    lines.append("#[cfg_attr(kani, kani::proof)]")
    lines.append("#[cfg_attr(kani, kani::unwind(%d))]" % uw)
    lines.append("pub fn %s() {" % name)
    lines.append("    let init = [sym::u8(), sym::u8(), sym::u8(), sym::u8()];")
    lines.append("    let mut reg = reg_abcd(init);")
    if distinct:
        binds = ", ".join("r%d" % i for i in range(len(tup)))
        lines.append("    let v = [sym::u8(), sym::u8(), sym::u8(), sym::u8()];")
        lines.append("    match reg.try_get_multiple_mut::<(%s)>() {" % tys)
        lines.append("        Ok((%s)) => {" % binds)
        lines.append("            let addrs = [%s];" % ", ".join("r%d as *mut _ as usize" % i for i in range(len(tup))))
        lines.append('            assert!(distinct_addrs(&addrs), "distinct types yield references to distinct objects");')
        for i in range(len(tup)):
            lines.append("            r%d.0 = v[%d];" % (i, i))
        lines.append("        }")
        lines.append('        Err(_) => assert!(false, "a tuple of distinct, present types is granted"),')
        lines.append("    }")
        for i, ty in enumerate(tup):
            lines.append('    assert!(reg.try_get_value::<%s>().ok() == Some(v[%d]), "what was written through the references is read back");' % (ty, i))
        for i, ty in enumerate("ABCD"):
            if ty not in tup:
                lines.append('    assert!(reg.try_get_value::<%s>().ok() == Some(init[%d]), "types outside the tuple are untouched");' % (ty, i))
    else:
        lines.append('    assert!(matches!(reg.try_get_multiple_mut::<(%s)>(), Err(StateError::MultipleBorrowConflict(_))), "a tuple in which a type repeats is refused");' % tys)
        lines.append('    assert!(reg.try_get_value::<A>().ok() == Some(init[0]) && reg.try_get_value::<C>().ok() == Some(init[2]), "nothing changed");')
    lines.append('    vcover!(true, "reached");')
    lines.append("    std::mem::forget(reg);")
    lines.append("}")
def canonical(tup):
    m = {}
    pat = tuple(m.setdefault(t, len(m)) for t in tup)
    return tuple(T[i] for i in pat)
# quick: one representative per equality pattern (set partition of the positions) for every arity,
# plus a few permuted all-distinct tuples; thorough: every tuple over {A,B,C} up to arity 4
EXTRA_QUICK = {("B", "A"), ("C", "A", "B"), ("B", "C", "A"), ("D", "C", "B", "A"), ("B", "B", "A"), ("C", "B", "C")}
seen = set()
for n in (2, 3, 4):
    for tup in itertools.product("ABCD", repeat=n):
        if tup == canonical(tup) or tup in EXTRA_QUICK:
            emit(tup, "quick")
            seen.add(tup)
    for tup in itertools.product("ABC", repeat=n):
        if tup not in seen:
            emit(tup, "thorough")
src = os.path.join(os.path.dirname(__file__), "..", "..", "kani", "src", "c02.rs")
s = open(src).read()
marker = "// ==== generated harness list (tools/gen/gen_c02.py) ====\n"
s = s[:s.index(marker) + len(marker)] + "\n".join(lines) + "\n"
open(src, "w").write(s)
print(sum(1 for l in lines if l.startswith("pub fn")), "multi harnesses")
