#!/usr/bin/env python3
"""Generate the harness list at the end of kani/src/c01.rs (shapes x operation families)."""
import itertools, os
OPS = ["reads", "insert", "remove", "set_value", "get_mut", "and_modify_or_insert", "or_insert_with", "or_default",
       "entry_insert", "entry_remove", "entry_access", "push_scope", "and_modify_value"]
lines = []
for depth in (1, 2, 3):
    for pres in itertools.product([False, True], repeat=depth):
        shape = "".join("1" if p else "0" for p in pres)
        arr = "[" + ", ".join(str(p).lower() for p in list(pres) + [False] * (3 - depth)) + "]"
        for oi, op in enumerate(OPS):
            # quick: absent / parent-only / shadowed at depth <= 2 for every family, plus the
            # grandparent-only and shadowed-twice shapes for the resolving mutators
            tier = "quick" if shape in ("0", "10", "11") else "thorough"
            # absent in BOTH scopes: where does a vacant entry / an insert put the value?
            if shape == "00" and op in ("and_modify_or_insert", "or_insert_with", "or_default", "entry_insert", "insert", "remove"):
                tier = "quick"
            if depth == 3 and shape in ("100", "111") and op in ("remove", "entry_insert", "and_modify_or_insert", "get_mut"):
                tier = "quick"
            name = "h_c01_%s_d%d_%s" % (op, depth, shape)
            lines.append('// @h tier=%s bound="depth %d, A present per scope (bottom..top) %s, B in the bottom scope; op %s; all stored values and arguments" unwind=%d mem=%d reclimit="%s=%d"' % (tier, depth, shape, op, depth + 3, 12 if (shape == "00" and op in ("and_modify_or_insert", "or_insert_with", "or_default", "entry_insert")) else 6, "mahf::state::(registry::)?StateRegistry::<.*>::find(_mut)?::<.*>", depth + 2))
            lines.append("h!(%s, %d, %s, %d, %d);" % (name, depth, arr, oi, depth + 3))
src = os.path.join(os.path.dirname(__file__), "..", "..", "kani", "src", "c01.rs")
s = open(src).read()
marker = "// ==== generated harness list (tools/gen/gen_c01.py) ====\n"
s = s[:s.index(marker) + len(marker)] + "\n".join(lines) + "\n"
open(src, "w").write(s)
print(len(lines) // 2, "harnesses")
