#!/bin/bash
# Run every claimed property's check once (default tier quick) and summarise. Development aid.
# usage: run_all.sh [quick|thorough]
T=${1:-quick}
cd "$(dirname "$0")/.."
for P in $(python3 -c "import json;print(' '.join(c['property_id'] for c in json.load(open('MANIFEST.json'))['checks']))"); do
  s=$(date +%s)
  python3 tools/vcheck.py $P --tier $T > target/logs/all_$P.log 2>&1; rc=$?
  echo "$P exit=$rc $(( $(date +%s) - s ))s : $(tail -1 target/logs/all_$P.log)"
done
