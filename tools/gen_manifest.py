#!/usr/bin/env python3
"""Generate /verif/MANIFEST.json from the table below and from which harness modules exist.

A property is *claimed* when its module kani/src/cNN.rs defines at least two `@h` harnesses and
it is not listed in NOT_APPLICABLE; otherwise it is listed under not_applicable with a reason.
"""
import json
import os
import subprocess
import sys

sys.path.insert(0, os.path.dirname(os.path.abspath(__file__)))
import vcheck  # noqa: E402

VERIF = vcheck.VERIF

NOT_APPLICABLE = {
    "C15": "solver-based checking of the real code does not reach it: export round-trips and configuration serialisation run through serde/erased-serde/ron/serde_json/ciborium formatting and file I/O; the logger-step fragment (Logger::execute with a 2-rule LogConfig) was probed at 203K symex steps and ran out of memory at 14 GB (DESIGN.md section 5 C15, section 8)",
    "C16": "whole-template runs are whole-program executions (6-20 dyn Component executions per loop pass over heap-backed state): one pass of the cheapest template (permutation_rs, 3 positions, 12 draws) spent 19 min in symbolic execution and ran out of memory at 20 GB; Configuration::optimize cannot be compiled by Kani 0.68 (ICE on thread_rng). Component guards and stack effects are decided under C04/C11/C12/C13 (DESIGN.md section 5 C16)",
}
PENDING = "check not built yet in this session (harness module empty); planned per DESIGN.md section 5"

LEVEL = {
    "C01": ("Bounded model checking of the real registry code (Kani/CBMC): one real operation from every registry shape up to depth 3 over 2-3 state types with symbolic stored values and arguments, compared with a stack-of-maps reference model and read back cell by cell; inductive one-step, so histories of any length within the shape bound.",
            "H1 map stand-in replaces std HashMap (differentially checked against BTreeMap and by the repo's own tests under --cfg mahf_verif); depth<=3, <=3 types; panic messages not observed."),
    "C02": ("Bounded model checking (Kani/CBMC) of the borrow-guard state machine (scripts of <=3 guard operations, symbolic choice), multi-borrow for every tuple type up to arity 4 over 3 types (memory-safety checks on), and holding() for both closure outcomes.",
            "H1 map/set stand-in; <=4 live guards; arity 5..8 sampled; RefCell from std is real code."),
    "C03": ("Bounded model checking (Kani/CBMC) of the real control-flow components and of configurations built with the real builder, with symbolic condition outcomes and symbolic fault point, against a reference interpreter; trees up to the stated size, loops <=3 passes.",
            "restrict-vtable; eyre shim (errors observed as Err only); trees <=4 constructs; default state_init/merge closures."),
    "C04": ("Bounded model checking (Kani/CBMC): one real stack operation from every stack height 0..4 with symbolic contents and symbolic arguments against a LIFO model; rotation identity by n real calls.",
            "height<=4, population size<=2; inductive one-step."),
    "C05": ("Bounded model checking (Kani/CBMC): (1) one arbitrary public-API operation on an arbitrary individual w.r.t. a symbolic objective table; (2) per shipped component, one real execute from an arbitrary invariant-satisfying state re-establishes 'evaluated => objective == f(solution)' everywhere in the state.",
            "populations<=2, dimension<=2; SymRng draw budget; composition over a run is by induction (C03), not a solver query."),
    "C06": ("Bounded model checking (Kani/CBMC) of PopulationEvaluator/Sequential with a counting evaluator from symbolic populations of size 0..3 and a symbolic previous counter value; missing evaluator => Err before any execute.",
            "Sequential only; Parallel (rayon) is outside: Kani has no concurrency model."),
    "C07": ("Bounded model checking (Kani/CBMC), inductive one-step: BestIndividual::update over all objective pairs; the update component over symbolic populations <=3; elitist archive k<=3 from an arbitrary sorted archive; re-insertion without duplicates.",
            "run-level clause (final best == minimum returned, per template) is not decided; populations<=3, k<=3."),
    "C08": ("Bounded model checking (Kani/CBMC) of generator handling only: child generators are a function of the parent stream, a supplied generator is never replaced, Sequential evaluation draws nothing.",
            "NARROW: schedule/thread independence (rayon), stream distinctness (ChaCha) and whole-run equality are outside this technique."),
    "C09": ("Bounded model checking (Kani/CBMC) over ALL f64 bit patterns: construction legality, total order consistency (pairs, triples, min/max/sort), operator closure, Pareto dominance vs reference model for vectors up to length 3.",
            "vectors longer than 3 outside; IEEE-754 semantics as bit-blasted by CBMC."),
    "C10": ("Bounded model checking (Kani/CBMC): one evaluation of each condition from a state with symbolic observed value / parameters vs. its specification; change-of over histories of length 3; logical formulas depth<=2 with per-operand evaluation counters; loops n<=3 executed through the real Loop.",
            "loops with n>3 by induction (exactness of LessThanN for all n + loop step); EveryN n=0 excluded (division by zero is outside the statement)."),
    "C11": ("Bounded model checking (Kani/CBMC) of every Selection::select called directly on populations of size 0..3 with symbolic objectives, symbolic counts and a symbolic RNG (draw budget), membership by reference; weights monotone in fitness; driver stack effect.",
            "population<=3(4); distribution not claimed, only support and direction; rejection loops cut by the draw budget."),
    "C12": ("Bounded model checking (Kani/CBMC) of every Replacement::replace on parents/offspring sizes 0..2 (3) with symbolic objectives and mu, unique tags (multiset containment), plus the driver's stack effect.",
            "sizes<=3; symbolic RNG with draw budget."),
    "C13": ("Bounded model checking (Kani/CBMC): differential harnesses for the paired helper implementations, gene conservation of crossovers, permutation-ness, parameter acceptance of constructors, component stack effects; lengths 2..5.",
            "lengths above the bound and the distribution of mutation noise are outside."),
    "C14": ("Bounded model checking (Kani/CBMC) of the four boundary operators over all finite coordinates within K widths of the domain (termination = passing unwinding assertion) and of the initialisers for sizes 0..2 x dims 0..2 with symbolic draws.",
            "|x-mid|<=K widths (K=2 quick, 8 thorough); dimension<=2; concrete domains where the symbolic multiplier does not fit."),
    "C17": ("Bounded model checking (Kani/CBMC) of ExponentialAnnealingAcceptance::execute over all objectives, temperatures and the uniform draw with exp axiomatised and recorded; geometric cooling exactness.",
            "libm accuracy of exp is outside (axioms listed in evidence)."),
    "C18": ("Bounded model checking (Kani/CBMC), inductive one-step of the PSO velocity/position update (bit-exact recomputation, clamp), memory updates and linear inertia weight.",
            "swarm<=2 x dim<=2, magnitudes<=2^20; one-product variants in quick."),
    "C19": ("Bounded model checking (Kani/CBMC), inductive one-step: tour validity of AcoGeneration from any finite non-negative pheromone matrix (3 cities), evaporate-then-deposit exactness and bounds of the two updates.",
            "3 (4) cities; alpha,beta in {0,1,2} or powf axioms; distances within stated magnitudes."),
    "C20": ("Bounded model checking (Kani/CBMC), inductive one-step of each CRO update: bit-exact recomputation of the written energies (conservation then follows from x*(1-a)+x*a=x plus a rounding bound), non-negativity, alignment, stack consumption.",
            "populations<=3, energies<=2^20; duplicates in the population outside."),
}


def main():
    props = [json.loads(l)["id"] for l in open(os.path.join(VERIF, "properties.jsonl"))]
    checks, na = [], []
    for p in props:
        hs = vcheck.discover(p)
        if p in NOT_APPLICABLE:
            na.append({"property_id": p, "reason": NOT_APPLICABLE[p]})
            continue
        if len(hs) < 2:
            na.append({"property_id": p, "reason": PENDING})
            continue
        text, note = LEVEL[p]
        nq = sum(1 for h in hs if h.get("tier", "quick") == "quick")
        checks.append({
            "property_id": p,
            "quick_cmd": "python3 tools/vcheck.py %s --tier quick" % p,
            "thorough_cmd": "python3 tools/vcheck.py %s --tier thorough" % p,
            "evidence_file": "/verif/evidence/%s.json" % p,
            "replay_cmd_template": "python3 tools/vcheck.py --replay {path}",
            "engine": "kani-cbmc",
            "level_claimed": {"category": "model_checking",
                              "text": text + " (%d harnesses quick, %d thorough.) Bounded: nothing is claimed outside the stated bounds." % (nq, len(hs)),
                              "design_ref": "DESIGN.md section 5 " + p},
            "level_note": note + " Common trusted base: Kani 0.68/CBMC 6.11/CaDiCaL; eyre/color-eyre control-flow shims and foldable better_any ids in the verification workspace; hook H1 (registry map stand-in). Counterexamples are reported only after native replay against the unmodified crate.",
            "technique": "bounded model checking of the compiled Rust code (Kani -> CBMC -> SAT), symbolic inputs/RNG draws, native replay of counterexamples",
        })
    hooks = subprocess.run(["git", "-C", "/repo", "log", "--format=%H %s"], stdout=subprocess.PIPE, text=True).stdout.splitlines()
    hook_commits = [l.split()[0] for l in hooks if "verif hook" in l]
    man = {
        "version": 1,
        "setup_cmd": "sh tools/setup.sh",
        "hooks": {
            "guard": "cfg(any(kani, mahf_verif))",
            "enable": "implicit under cargo kani (--cfg kani); RUSTFLAGS='--cfg mahf_verif' selects the same map stand-in in a native build (used only to validate the stand-in with the repo's own tests)",
            "baseline_off_cmd": "cd /repo && cargo test --workspace --no-fail-fast --offline",
            "source_commits": hook_commits,
            "add_only": False,
        },
        "engines": [{"name": "kani-cbmc", "path": "/verif/kani", "serves_properties": [c["property_id"] for c in checks],
                     "kind_free_text": "Kani 0.68 proof harnesses over the real crate (path dependency on /repo), decided by CBMC 6.11 + CaDiCaL; driver tools/vcheck.py; native replay crate /verif/replay"}],
        "checks": checks,
        "not_applicable": na,
        "notes": "Exit codes: 0 held (KNOWN-FINDING lines allowed), 1 replay-confirmed violation not in known_findings.json, 2 machinery fault (build failure, vacuous harness, non-reproducing counterexample, nothing decided). VERIF_SEED only permutes job order. Evidence under /verif/evidence/<id>.json; counterexample files under /verif/evidence/replays/.",
    }
    json.dump(man, open(os.path.join(VERIF, "MANIFEST.json"), "w"), indent=1)
    print("claimed:", [c["property_id"] for c in checks])
    print("not_applicable:", [n["property_id"] for n in na])


if __name__ == "__main__":
    main()
