#!/usr/bin/env python3
"""Generate /verif/MANIFEST.json from the table below and from which harness modules exist.

A property is *claimed* when its module kani/src/cNN.rs defines at least two `@h` harnesses and
it is not listed in NOT_APPLICABLE; otherwise it is listed under not_applicable with a reason.
"""
import json
import os
import subprocess
import sys

sys.path.insert(0, os.path.dirname(os.path.abspath(__file__)))
import vcheck  # noqa: E402

VERIF = vcheck.VERIF

NOT_APPLICABLE = {
    "C15": "solver-based checking of the real code does not reach it: export round-trips and configuration serialisation run through serde/erased-serde/ron/serde_json/ciborium formatting and file I/O; the logger-step fragment (Logger::execute with a 2-rule LogConfig) was probed at 203K symex steps and ran out of memory at 14 GB (DESIGN.md section 5 C15, section 8)",
    "C16": "whole-template runs are whole-program executions (6-20 dyn Component executions per loop pass over heap-backed state): one pass of the cheapest template (permutation_rs, 3 positions, 12 draws) spent 19 min in symbolic execution and ran out of memory at 20 GB; Configuration::optimize cannot be compiled by Kani 0.68 (ICE on thread_rng). Component guards and stack effects are decided under C04/C11/C12/C13 (DESIGN.md section 5 C16)",
}
PENDING = "check not built yet in this session (harness module empty); planned per DESIGN.md section 5"

LEVEL = {
    "C01": ("Bounded model checking of the real registry code (Kani/CBMC): one real operation (13 families: reads, insert, remove, set_value, get_mut, every entry-API path, scope push) from every registry shape up to depth 3 (which scopes hold the type) with symbolic stored values and arguments; the result is compared with a stack-of-maps reference model and every scope is popped and compared cell by cell; multi-type lookup across scopes. Inductive one-step, so histories of any length within the shape bound.",
            "H1 map stand-in replaces std HashMap (the repo's own 51 tests + 146 doctests pass with it under --cfg mahf_verif); depth<=3 (4 after a push), 2 state types; panic messages not observed; quick tier = shapes absent/parent-only/shadowed/absent-in-both (+ two depth-3 shapes), thorough = all 183."),
    "C02": ("Bounded model checking (Kani/CBMC) of fixed guard scripts with symbolic values and release order (readers block the writer, a writer blocks everyone, other types and other scopes unaffected, panicking accessors), holding() from the top and from the parent scope for both closure outcomes plus a four-step history, and multi-borrow for one tuple type per equality pattern of arity 2-4 (all 117 tuples over three types in the thorough tier) with CBMC's memory-safety checks on.",
            "H1 map/set stand-in; <=4 live guards; arities 5..8 not instantiated; std RefCell is real code."),
    "C03": ("Bounded model checking (Kani/CBMC) of configurations built with the real builder / constructors and run through Configuration::run: 11 trees (sequence, if, if/else, scope, shadowing scope, missing requirement, while, nested while, while{scope}, scope{while}) with symbolic condition outcomes (<=2 passes per loop entry) and a symbolic fault point among listed lifecycle events, compared event by event with the structured program each tree denotes; caller state, scope depth, shadowing and the pass counter are checked afterwards.",
            "per-function recursion bounds (CBMC --unwindset, unwinding assertions on); eyre shim (errors observed as Err only); trees <=4 constructs; default Scope closures."),
    "C04": ("Bounded model checking (Kani/CBMC): one real stack operation from every stack height 0..3 (4 thorough) with symbolic contents and symbolic arguments against a LIFO model: all accessors for any depth argument, push/pop, in-place edits, push onto an empty top, rotate(n) for all n<=height incl. n applications = identity and rotation after a net pop, the RotatePopulations guard, ClearPopulation.",
            "height<=4, population size<=2; Duplicate/Interleave only in the thorough tier (std collect on a length the engine cannot fold)."),
    "C05": ("Bounded model checking (Kani/CBMC): (1) one arbitrary public-API operation (incl. clone_from, equality, population helpers, best memory) on an arbitrary consistent individual w.r.t. a symbolic objective table; (2) one real execute of six shipped components over a generic encoding from an arbitrary consistent state re-establishes 'evaluated => objective == f(solution)' for every individual on the stack and in the best memory.",
            "components with Vec encodings and All/Merge/MuPlusLambda through a State are thorough-tier best effort; composition over a run is an induction (C03), not a solver query."),
    "C06": ("Bounded model checking (Kani/CBMC) of Sequential::evaluate and the full PopulationEvaluator step with a call-counting objective function from populations of 0..2 (3 thorough) individuals, each arbitrarily stale or unevaluated before, any previous counter, stack height 2 and empty stack; requirement failure per evaluator identifier.",
            "Sequential only; Parallel (rayon) is outside: the engine has no concurrency model; whole-run exactness by induction."),
    "C07": ("Bounded model checking (Kani/CBMC), inductive one-step: BestIndividual::update over all objective pairs; best_individual; the update component from any memory over populations <=2 (3 thorough).",
            "NOT decided: the elitist-archive clauses (thorough tier, no verdict: sort on a length the engine cannot fold) and the run-level clause (final best == minimum returned, per template)."),
    "C08": ("Bounded model checking (Kani/CBMC) of generator handling only: the backend is seeded with exactly the given seed, children are a deterministic function of the parent stream, the sequential evaluation step draws nothing, a supplied generator is visible to the insert-if-absent rule.",
            "NARROW: schedule/thread independence (rayon), stream distinctness of ChaCha12, whole-run equality and Configuration::optimize_with (Kani ICE) are outside this technique."),
    "C09": ("Bounded model checking (Kani/CBMC) over ALL f64 bit patterns: construction legality, total order consistency (pairs, triples, min/max/sort), operator semantics, operator closure (known finding F-C09a), Pareto dominance vs a reference model for vectors up to length 2 (3 thorough), one operand through each constructor.",
            "vectors longer than 3 outside; IEEE-754 semantics as bit-blasted by CBMC."),
    "C10": ("Bounded model checking (Kani/CBMC): one evaluation of each condition from a prepared state with symbolic observed value / parameters vs its specification (LessThanN, progress, EveryN, OptimumReached, RandomChance threshold and monotonicity); change-of over symbolic histories of length 3 for both measures; And/Or over 2 operands and Not with per-operand evaluation records; loops n in {0,1,2,3} through the real Loop (n passes, n+1 tests, re-initialisation, counter, final progress).",
            "And/Or over 3 operands and nested formulas thorough-tier (out of 12 GB); loops n>3 by induction; EveryN n=0 and RandomChance p outside [0,1] excluded (undocumented preconditions)."),
    "C11": ("Bounded model checking (Kani/CBMC) of every Selection::select called directly on populations of size 0..3 with symbolic objectives and a symbolic RNG (draw budget): counts, membership by reference, documented errors, tournament over the whole population = best, weight direction (proportional_weights; rank operators through the real select with reverse_rank replaced by its specification), IWO counts, driver stack effect.",
            "population<=3; distribution not claimed, only support, count and direction; roulette/SUS sampling and DE selections on 3 individuals thorough-tier best effort; rejection loops cut by the draw budget."),
    "C12": ("Bounded model checking (Kani/CBMC) of every Replacement::replace on parents/offspring sizes 0..2 (3 thorough) with symbolic objectives and mu, unique tags (multiset containment), plus the driver's stack effect incl. empty offspring, a population underneath and error propagation.",
            "sizes<=3; symbolic RNG with draw budget."),
    "C13": ("Bounded model checking (Kani/CBMC): differential harnesses for the paired helper implementations (circular swap on length 4; slice translocation on every shape of length 4 and five of length 5), gene conservation of uniform / n-point crossover, arithmetic crossover for alpha in {0,1}, constructor parameter ranges, UniformCrossover::recombine.",
            "lengths above 5; mutation noise distributions; the recombination driver, DE mutation, cycle crossover and the permutation-mutation components are thorough-tier (28-44 GB, partly undecided); F-C13d (TranslocationMutation) is a known finding of the thorough tier."),
    "C14": ("Bounded model checking (Kani/CBMC) of the boundary operators over all finite coordinates within K domain widths (Saturation: any domain; Toroidal/Mirror: concrete domains; termination = passing unwinding assertion) and of the initialisers for sizes 0..2 x dims 0..3 with symbolic draws (counts, dimensions, per-dimension domains, permutation-ness).",
            "|x-mid|<=K widths (K=2 quick, 8 thorough); the one-tailed correction only for coordinates inside the closed domain (its re-sampling path does not fit 28 GB); boundary driver thorough-tier."),
    "C17": ("Bounded model checking (Kani/CBMC) of ExponentialAnnealingAcceptance::execute over all finite objectives, temperatures and the uniform draw with exp axiomatised and its argument recorded (better-or-equal always accepted; worse accepted iff u < exp(arg); exponent bit-equal for T=2); stack effect at heights 2 and 3; geometric cooling constructor, map and execute.",
            "libm accuracy of exp is outside (axioms listed in the harness module); exponent for all T and alpha=0.9 thorough-tier."),
    "C18": ("Bounded model checking (Kani/CBMC), inductive one-step: constructors; linear inertia weight (map and through the lenses); personal-best and global-best updates for one particle; the velocity/position step for 1 particle x 1 dimension with the stored inertia weight fixed to 0.5 and c1=c2=0 (clamp, move-by-velocity bit-exact, stored weight used).",
            "symbolic stored weight and c1/c2 != 0 (symbolic x symbolic products) thorough-tier, partly undecided; swarm<=2 x dim 1; magnitudes<=2^20."),
    "C19": ("Bounded model checking (Kani/CBMC), inductive one-step on a 3-city instance: pheromone matrix operations; AS and max-min updates recomputed bit-exactly (evaporate first, then symmetric reinforcement of consecutive edges of the rewarded tour, bounds for the max-min variant) with two symbolic trails and a fixed tour length.",
            "full symbolic matrix / tour length and tour generation (rand WeightedIndex) thorough-tier best effort; evaporation 0.5; alpha=beta=1."),
    "C20": ("Bounded model checking (Kani/CBMC), inductive one-step of the CRO updates over a generic encoding: synthesis for three reactant orders (placement, record alignment, uninvolved molecule intact, energies non-negative and bounded), on-wall collision (structure, hit counters, rejection changes no energy), wrong stack layouts are errors.",
            "bit-exact conservation for synthesis, decomposition and the intermolecular collision are thorough-tier (decided, 10-20 min each); conservation up to rounding for the random-factor splits is not decided; populations<=3, energies<=2^20; duplicates in the population outside."),
}


def main():
    props = [json.loads(l)["id"] for l in open(os.path.join(VERIF, "properties.jsonl"))]
    checks, na = [], []
    for p in props:
        hs = vcheck.discover(p)
        if p in NOT_APPLICABLE:
            na.append({"property_id": p, "reason": NOT_APPLICABLE[p]})
            continue
        if len(hs) < 2:
            na.append({"property_id": p, "reason": PENDING})
            continue
        text, note = LEVEL[p]
        nq = sum(1 for h in hs if h.get("tier", "quick") == "quick")
        checks.append({
            "property_id": p,
            "quick_cmd": "python3 tools/vcheck.py %s --tier quick" % p,
            "thorough_cmd": "python3 tools/vcheck.py %s --tier thorough" % p,
            "evidence_file": "/verif/evidence/%s.json" % p,
            "replay_cmd_template": "python3 tools/vcheck.py --replay {path}",
            "engine": "kani-cbmc",
            "level_claimed": {"category": "model_checking",
                              "text": text + " (%d harnesses quick, %d thorough.) Bounded: nothing is claimed outside the stated bounds." % (nq, len(hs)),
                              "design_ref": "DESIGN.md section 0.3 (as built) and section 5 " + p},
            "level_note": note + " Common trusted base: Kani 0.68/CBMC 6.11/CaDiCaL; eyre/color-eyre control-flow shims and foldable better_any ids in the verification workspace; hook H1 (registry map stand-in). Counterexamples are reported only after native replay against the unmodified crate.",
            "technique": "bounded model checking of the compiled Rust code (Kani -> CBMC -> SAT), symbolic inputs/RNG draws, native replay of counterexamples",
        })
    hooks = subprocess.run(["git", "-C", "/repo", "log", "--format=%H %s"], stdout=subprocess.PIPE, text=True).stdout.splitlines()
    hook_commits = [l.split()[0] for l in hooks if "verif hook" in l]
    man = {
        "version": 1,
        "setup_cmd": "sh tools/setup.sh",
        "hooks": {
            "guard": "cfg(any(kani, mahf_verif))",
            "enable": "implicit under cargo kani (--cfg kani); RUSTFLAGS='--cfg mahf_verif' selects the same map stand-in in a native build (used only to validate the stand-in with the repo's own tests)",
            "baseline_off_cmd": "cd /repo && cargo test --workspace --no-fail-fast --offline",
            "source_commits": hook_commits,
            "add_only": False,
        },
        "engines": [{"name": "kani-cbmc", "path": "/verif/kani", "serves_properties": [c["property_id"] for c in checks],
                     "kind_free_text": "Kani 0.68 proof harnesses over the real crate (path dependency on /repo), decided by CBMC 6.11 + CaDiCaL; driver tools/vcheck.py; native replay crate /verif/replay"}],
        "checks": checks,
        "not_applicable": na,
        "notes": "Exit codes: 0 held (KNOWN-FINDING lines allowed), 1 replay-confirmed violation not in known_findings.json, 2 machinery fault (build failure, vacuous harness, non-reproducing counterexample, nothing decided). VERIF_SEED only permutes job order. Evidence under /verif/evidence/<id>.json; counterexample files under /verif/evidence/replays/.",
    }
    json.dump(man, open(os.path.join(VERIF, "MANIFEST.json"), "w"), indent=1)
    print("claimed:", [c["property_id"] for c in checks])
    print("not_applicable:", [n["property_id"] for n in na])


if __name__ == "__main__":
    main()
