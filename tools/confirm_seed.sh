#!/bin/bash
# Confirm a seeded change produced by a sub-agent, in its scratch worktree, and store it.
# usage: confirm_seed.sh <PROP> <mN>     (expects /tmp/out_<PROP>/<mN>.diff, <mN>_demo.rs, <mN>_meta.json)
P=$1; M=$2; R=${3:-}; WT=/tmp/wt${R}_$P; OUT=/tmp/out${R}_$P
set -u
cd $WT || exit 2
git checkout -q -- src
name=seed_${P}_${M}
mkdir -p tests; cp $OUT/${M}_demo.rs tests/$name.rs
export CARGO_NET_OFFLINE=true
echo "== baseline demo (must pass)"
cargo test --offline --test $name > /tmp/confirm_${P}_${M}_base.log 2>&1; base=$?
git apply $OUT/$M.diff || { echo "diff does not apply"; exit 2; }
echo "== lib tests with change (must pass)"
cargo test --offline --lib > /tmp/confirm_${P}_${M}_lib.log 2>&1; lib=$?
npass=$(grep -o "[0-9]* passed" /tmp/confirm_${P}_${M}_lib.log | head -1)
echo "== demo with change (must fail)"
cargo test --offline --test $name > /tmp/confirm_${P}_${M}_mut.log 2>&1; mut=$?
git checkout -q -- src
rm -f tests/$name.rs
echo "base_demo_rc=$base lib_rc=$lib ($npass) mutated_demo_rc=$mut"
if [ $base -eq 0 ] && [ $lib -eq 0 ] && [ $mut -ne 0 ]; then
  d=/verif/seeded/${P}_${M}; mkdir -p $d
  cp $OUT/$M.diff $d/patch.diff; cp $OUT/${M}_demo.rs $d/demo.rs
  python3 - "$OUT/${M}_meta.json" "$d/meta.json" "$P" "$npass" <<'PY'
import json,sys
src,dst,p,npass=sys.argv[1:5]
try: m=json.load(open(src))
except Exception as e: m={"summary":"(agent meta unreadable: %s)"%e}
out={"property":p,"breaks":m.get("summary"),"needs_to_manifest":m.get("needs_to_manifest"),
 "confirmed_by_me":{"where":"scratch worktree /tmp/wt*_%s (since removed)"%p,
   "demo_passes_on_unchanged_tree":True,"lib_tests_with_change":npass,"demo_fails_with_change":True,
   "commands":["cargo test --offline --test <demo> (unchanged: pass)","git apply patch.diff","cargo test --offline --lib","cargo test --offline --test <demo> (fails)","git checkout -- src"]},
 "origin":"independent sub-agent given only the property text","detected_by":None}
json.dump(out,open(dst,"w"),indent=1)
PY
  echo "CONFIRMED -> $d"
else
  echo "NOT CONFIRMED"; tail -15 /tmp/confirm_${P}_${M}_base.log | head -30
fi
