#!/bin/bash
# Apply a stored seeded change to /repo, run the property's quick check, undo. Development aid.
# usage: run_seed.sh <seed dir name, e.g. C04_m1> [extra vcheck args]
S=$1; shift
D=/verif/seeded/$S
P=$(python3 -c "import json;print(json.load(open('$D/meta.json'))['property'])")
cd /repo && git diff --quiet || { echo "/repo has uncommitted changes"; exit 2; }
git -C /repo apply $D/patch.diff || { echo "patch does not apply to /repo HEAD"; exit 2; }
cd /verif
VERIF_TARGET=${VERIF_TARGET:-/verif/target} python3 tools/vcheck.py $P "$@" > /tmp/seed_$S.log 2>&1; rc=$?
git -C /repo checkout -- .

git -C /verif checkout -- evidence/$P.json 2>/dev/null
python3 - "$D/meta.json" "$rc" /tmp/seed_$S.log <<'PY'
import json,sys,re
mp,rc,log=sys.argv[1:4]
m=json.load(open(mp)); t=open(log).read()
m["detected_by"]={"exit":int(rc),"harnesses":sorted(set(re.findall(r"^  harness=(\S+)",t,re.M))),"summary":(re.findall(r"^C\d\d tier=.*$",t,re.M) or [""])[-1]}
json.dump(m,open(mp,"w"),indent=1)
PY
echo "seed $S property $P: exit $rc"; grep -E "^VIOLATION|^  harness|^BROKEN|^INCONCLUSIVE|tier=" /tmp/seed_$S.log | head -12
