#!/bin/sh
# Offline set-up: build the native replay binary (and thereby check that /repo and the harness
# sources compile natively). Kani artefacts are built by each check in its own target dir.
set -e
cd "$(dirname "$0")/.."
export CARGO_NET_OFFLINE=true
python3 tools/vcheck.py --gen-registry
cd replay
cargo build --offline --target-dir ../target/replay 2>&1 | tail -3
cargo kani --version
