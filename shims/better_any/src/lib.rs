#![warn(missing_docs)]
#![warn(rust_2018_idioms)]
#![cfg_attr(feature = "nightly", feature(coerce_unsized))]
#![cfg_attr(feature = "nightly", feature(ptr_metadata))]
//! # Better Any
//!
//! Rust RFC for `non_static_type_id` feature has been reverted.
//! Which means in foreseeable future there will be no built-in way in rust to get type id for non-static type
//! let alone safely use it to downcast to a particular type.
//!
//! This crate provides tools to do these things safely for types with single lifetime.
//! Although looks like it is technically possible to extend this approach for multiple lifetimes,
//! consistent api and derive macro would be much harder to create and use because of the necessity
//! to properly handle lifetime relations.
//! Feel free to create an issue if you have actual use case where you need this functionality for multiple lifetimes.
//!
//! Also it has better downcasting that allows you do downcast not just from `dyn Tid` (like `dyn Any`) but from
//! any trait object that implements [`Tid`].
//! So there is no more need to extend your traits with` fn to_any(&self)-> &dyn Any`
//!
//! MSRV: `1.41.0-stable` (without nightly feature)
//!
//! ### Usage
//!
//! Basically in places where before you have used `dyn Any` you can use `dyn Tid<'a>`
//!  - If your type is generic you should derive `Tid` implementation for it with `tid!` macro or `Tid` derive macro.
//! Then to retrieve back concrete type `<dyn Tid>::downcast_*` methods should be used.
//!  - If your type is not generic/implements Any you can create `dyn Tid` from it via any of the available `From` implementations.
//! Then to retrieve back concrete type `<dyn Tid>::downcast_any_*` methods should be used
//!  - If your type is not generic and local to your crate you also can derive `Tid` but then you need to be careful
//! to use methods that corresponds to the way you create `dyn Tid` for that particular type.
//! Otherwise downcasting will return `None`.
//!
//! If all your types can implement `Tid` to avoid confusion
//! recommended way is to use first option even if some types implement `Any`.
//! If there are some types that implement `Any` and can't implement `Tid` (i.e. types from other library),
//! recommended way is to use second option for all types that implement `Any` to reduce confusion to minimum.
//!
//! ### Interoperability with Any
//!
//! Unfortunately you can't just use `Tid` everywhere because currently it is impossible
//! to implement `Tid` for `T:Any` since it would conflict with any other possible `Tid` implementation.
//! To overcome this limitation there is a `From` impl to go from `Box/&/&mut T where T:Any` to `Box/&/&mut dyn Tid`.
//!
//! Nevertheless if you are using `dyn Trait` where `Trait:Tid` all of this wouldn't work,
//! and you are left with `Tid` only.
//!
//! ### Safety
//!
//! It is safe because created trait object preserves lifetime information,
//! thus allowing us to safely downcast with proper lifetime.
//! Otherwise internally it is plain old `Any`.
use std::any::{Any, TypeId};

/// Attribute macro that makes your implementation of `TidAble` safe
/// Use it when you can't use derive e.g. for trait object.
///
/// ```rust
/// # use better_any::{TidAble,impl_tid};
/// trait Trait<'a>{}
/// #[impl_tid]
/// impl<'a> TidAble<'a> for Box<dyn Trait<'a> + 'a>{}
/// ```
#[deprecated(since = "0.2", note = "use tid! macro instead")]
#[cfg(feature = "derive")]
pub use better_typeid_derive::impl_tid;

/// Derive macro to implement traits from this crate
///
/// It checks if it is safe to implement `Tid` for your struct
/// Also it adds `:TidAble<'a>` bound on type parameters
/// unless your type parameter already has **explicit** `'static` bound
///
/// All of its functionality is available via regular `tid!` macro,
/// so unless you really want looks/readability of derive macro,
/// there is no need to drag whole proc-macro machinery to your project.
#[cfg(feature = "derive")]
pub use better_typeid_derive::Tid;

/// This trait indicates that you can substitute this type as a type parameter to
/// another type so that resulting type could implement `Tid`.
///
/// So if you don't have such generic types, just use `Tid` everywhere,
/// you don't need to use this trait at all.
///
/// Only this trait is actually being implemented on user side.
/// Other traits are mostly just blanket implementations over X:TidAble<'a>
///
/// Note that this trait interferes with object safety, so you shouldn't use it as a super trait
/// if you are going to make a trait object. Formally it is still object safe,
/// but you can't make a trait object from it without specifying internal associate type
/// like: `dyn TidAble<'a,Static=SomeType>` which make such trait object effectively useless.
///
/// Unsafe because safety of this crate relies on correctness of this trait implementation.
/// There are several safe ways to implement it:
///  - `type_id`/`tid` declarative macro
///  - `#[derive(Tid)]` derive macro
///  - impl_tid` attribute macro
// we need to have associate type because it allows TypeIdAdjuster to be a private type
// and allows to implement it for generic types
// it has lifetime and depends on Tid because it would be practically useless as a standalone trait
// because even though user would be able to get type id for more types,
// any action based on it would be unsound without checking on lifetimes
pub unsafe trait TidAble<'a>: Tid<'a> {
    /// Implementation detail
    #[doc(hidden)]
    type Static: ?Sized + Any;
}

/// Extension trait that contains actual downcasting methods.
///
/// Use methods from this trait only if `dyn Tid` was created directly from `T` for this particular `T`
///
/// If `Self` is `Sized` then any of those calls is optimized to no-op because both T and Self are known statically.
/// Useful if you have generic code that you want to behave differently depending on which
/// concrete type replaces type parameter. Usually there are better ways to do this like specialization,
/// but sometimes it can be the only way.
pub trait TidExt<'a>: Tid<'a> {
    /// Returns true if type behind self is equal to the type of T.
    fn is<T: Tid<'a>>(&self) -> bool {
        #[cfg(kani)]
        {
            kani_same(&self.self_id(), &T::id())
        }
        #[cfg(not(kani))]
        {
            self.self_id() == T::id()
        }
    }

    /// Attempts to downcast self to `T` behind reference
    fn downcast_ref<'b, T: Tid<'a>>(&'b self) -> Option<&'b T> {
        // Tid<'a> is implemented only for types with lifetime 'a
        // so we can safely cast type back because lifetime invariant is preserved.
        if self.is::<T>() {
            Some(unsafe { &*(self as *const _ as *const T) })
        } else {
            None
        }
    }

    /// Attempts to downcast self to `T` behind mutable reference
    fn downcast_mut<'b, T: Tid<'a>>(&'b mut self) -> Option<&'b mut T> {
        // see downcast_ref
        if self.is::<T>() {
            Some(unsafe { &mut *(self as *mut _ as *mut T) })
        } else {
            None
        }
    }

    /// Attempts to downcast self to `T` behind `Rc` pointer
    fn downcast_rc<T: Tid<'a>>(self: Rc<Self>) -> Result<Rc<T>, Rc<Self>> {
        if self.is::<T>() {
            unsafe { Ok(Rc::from_raw(Rc::into_raw(self) as *const _)) }
        } else {
            Err(self)
        }
    }

    /// Attempts to downcast self to `T` behind `Arc` pointer
    fn downcast_arc<T: Tid<'a>>(self: Arc<Self>) -> Result<Arc<T>, Arc<Self>> {
        if self.is::<T>() {
            unsafe { Ok(Arc::from_raw(Arc::into_raw(self) as *const _)) }
        } else {
            Err(self)
        }
    }

    /// Attempts to downcast self to `T` behind `Box` pointer
    fn downcast_box<T: Tid<'a>>(self: Box<Self>) -> Result<Box<T>, Box<Self>> {
        if self.is::<T>() {
            unsafe { Ok(Box::from_raw(Box::into_raw(self) as *mut _)) }
        } else {
            Err(self)
        }
    }

    /// Attempts to downcast owned `Self` to `T`,
    /// useful only in generic context as a workaround for specialization
    fn downcast_move<T: Tid<'a>>(self) -> Option<T>
    where
        Self: Sized,
    {
        if self.is::<T>() {
            // can't use `Option` trick here like with `Any`
            let this = core::mem::MaybeUninit::new(self);
            return Some(unsafe { core::mem::transmute_copy(&this) });
        }
        None
    }
}
impl<'a, X: ?Sized + Tid<'a>> TidExt<'a> for X {}

/// Methods here are implemented as an associated functions because otherwise
/// for one they will conflict with methods defined on `dyn Any` in stdlib,
/// for two they will be available on almost every type in the program causing confusing bugs and error messages
/// For example if you have `&Box<dyn Any>` and call `downcast_ref`, instead of failing or working on coerced `&dyn Any`
/// it would work with type id of `Box<dyn Any>` itself instead of the type behind `dyn Any`.
pub trait AnyExt: Any {
    /// Attempts to downcast this to `T` behind reference
    fn downcast_ref<T: Any>(this: &Self) -> Option<&T> {
        // Any is implemented only for types with lifetime 'a
        // so we can safely cast type back because lifetime invariant is preserved.
        if this.type_id() == TypeId::of::<T>() {
            Some(unsafe { &*(this as *const _ as *const T) })
        } else {
            None
        }
    }

    /// Attempts to downcast this to `T` behind mutable reference
    fn downcast_mut<T: Any>(this: &mut Self) -> Option<&mut T> {
        // see downcast_ref
        if (*this).type_id() == TypeId::of::<T>() {
            Some(unsafe { &mut *(this as *mut _ as *mut T) })
        } else {
            None
        }
    }

    /// Attempts to downcast this to `T` behind `Rc` pointer
    fn downcast_rc<T: Any>(this: Rc<Self>) -> Result<Rc<T>, Rc<Self>> {
        if this.type_id() == TypeId::of::<T>() {
            unsafe { Ok(Rc::from_raw(Rc::into_raw(this) as *const _)) }
        } else {
            Err(this)
        }
    }

    /// Attempts to downcast this to `T` behind `Arc` pointer
    fn downcast_arc<T: Any>(this: Arc<Self>) -> Result<Arc<T>, Arc<Self>> {
        if this.type_id() == TypeId::of::<T>() {
            unsafe { Ok(Arc::from_raw(Arc::into_raw(this) as *const _)) }
        } else {
            Err(this)
        }
    }

    /// Attempts to downcast this to `T` behind `Box` pointer
    fn downcast_box<T: Any>(this: Box<Self>) -> Result<Box<T>, Box<Self>> {
        if this.type_id() == TypeId::of::<T>() {
            unsafe { Ok(Box::from_raw(Box::into_raw(this) as *mut _)) }
        } else {
            Err(this)
        }
    }

    /// Attempts to downcast owned `Self` to `T`,
    /// useful only in generic context as a workaround for specialization
    fn downcast_move<T: Any>(this: Self) -> Option<T>
    where
        Self: Sized,
    {
        let temp = &mut Some(this) as &mut dyn Any;
        if let Some(temp) = AnyExt::downcast_mut::<Option<T>>(temp) {
            return Some(temp.take().unwrap());
        }
        None
    }
}
impl<T: ?Sized + Any> AnyExt for T {}

/// This trait indicates that this type can be converted to
/// trait object with typeid while preserving lifetime information.
/// Extends `Any` functionality for types with single lifetime
///
/// Use it only as a `dyn Tid<'a>` or as super trait when you need to create trait object.
/// In all other places use `TidAble<'a>`.
///
/// Lifetime here is necessary to make `dyn Tid<'a> + 'a` invariant over `'a`.
pub unsafe trait Tid<'a>: 'a {
    /// Returns type id of the type of `self`
    ///
    /// Note that returned type id is guaranteed to be different from provided by `Any`.
    /// It is necessary for the creation of `dyn Tid` from `dyn Any` to be sound.
    fn self_id(&self) -> TypeId;

    /// Returns type id of this type
    fn id() -> TypeId
    where
        Self: Sized;
}

unsafe impl<'a, T: ?Sized + TidAble<'a>> Tid<'a> for T {
    #[inline]
    fn self_id(&self) -> TypeId {
        adjust_id::<T::Static>()
    }

    #[inline]
    fn id() -> TypeId
    where
        Self: Sized,
    {
        adjust_id::<T::Static>()
    }
}

#[cfg(not(kani))]
#[inline(always)]
fn adjust_id<T: ?Sized + Any>() -> TypeId {
    TypeId::of::<T>()
}

// Verification build: ids are addresses of per-type functions, which the model checker can
// compare by constant folding (std's pointer-array TypeId cannot be folded).
#[cfg(kani)]
fn kani_tag<T: ?Sized + Any>() -> usize {
    core::mem::size_of::<*const T>()
}
#[cfg(kani)]
#[inline(always)]
fn adjust_id<T: ?Sized + Any>() -> TypeId {
    let p = kani_tag::<T> as fn() -> usize as *const ();
    unsafe { core::mem::transmute::<[*const (); 2], TypeId>([p, core::ptr::null()]) }
}
#[cfg(kani)]
#[inline(always)]
pub fn kani_same(a: &TypeId, b: &TypeId) -> bool {
    let pa = unsafe { core::mem::transmute_copy::<TypeId, [*const (); 2]>(a) };
    let pb = unsafe { core::mem::transmute_copy::<TypeId, [*const (); 2]>(b) };
    pa[0] == pb[0]
}

/// Returns type id of `T`
///
/// Use it only if `Tid::id()` is not enough when `T` is not sized.
#[inline]
pub fn typeid_of<'a, T: ?Sized + TidAble<'a>>() -> TypeId {
    adjust_id::<T::Static>()
}

impl<'a, T: Any> From<Box<T>> for Box<dyn Tid<'a> + 'a> {
    #[inline]
    fn from(f: Box<T>) -> Self {
        // TypeIdAdjuster is a transparent wrapper so it is sound
        unsafe { Box::from_raw(Box::into_raw(f) as *mut TypeIdAdjuster<T>) as _ }
    }
}

impl<'a: 'b, 'b, T: Any> From<&'b T> for &'b (dyn Tid<'a> + 'a) {
    #[inline]
    fn from(f: &'b T) -> Self {
        unsafe { &*(f as *const _ as *const TypeIdAdjuster<T> as *const _) }
    }
}

impl<'a: 'b, 'b, T: Any> From<&'b mut T> for &'b mut (dyn Tid<'a> + 'a) {
    #[inline]
    fn from(f: &'b mut T) -> Self {
        unsafe { &mut *(f as *mut _ as *mut TypeIdAdjuster<T> as *mut _) }
    }
}

// Reverse is possible only for 'static
// because otherwise even though user can't access type with lifetime because of different type id
// drop still can be called after the end of lifetime.
// impl Into<Box<dyn Any>> for Box<dyn Tid<'static>> {
//     fn into(self) -> Box<dyn Any> {
//         unsafe { core::mem::transmute(self) }
//     }
// }

//newtype wrapper to make `Any` types work with `dyn Tid`
#[repr(transparent)]
struct TypeIdAdjuster<T: ?Sized>(T);

tid! {impl<'a,T:'static> TidAble<'a> for TypeIdAdjuster<T> where T:?Sized}

impl<'a> dyn Tid<'a> + 'a {
    /// Tries to downcast `dyn Tid` to `T`
    ///
    /// Use it only if `dyn Tid` was created from concrete `T:Any` via `From` implementations.
    /// See examples how it does relate to other downcast methods
    ///
    /// ```rust
    /// # use std::any::Any;
    /// # use better_any::{Tid, TidAble, TidExt,tid};
    /// struct S;
    /// tid!(S);
    ///
    /// let a = &S;
    /// let from_any: &dyn Tid = a.into();
    /// assert!(from_any.downcast_any_ref::<S>().is_some());
    /// assert!(from_any.downcast_ref::<S>().is_none());
    ///
    /// let direct = &S as &dyn Tid;
    /// assert!(direct.downcast_any_ref::<S>().is_none());
    /// assert!(direct.downcast_ref::<S>().is_some());
    /// ```
    #[inline]
    pub fn downcast_any_ref<T: Any>(&self) -> Option<&T> {
        // SAFETY: just a transparent reference cast
        self.downcast_ref::<TypeIdAdjuster<T>>()
            .map(|x| unsafe { &*(x as *const _ as *const T) })
    }

    /// See `downcast_any_ref`
    #[inline]
    pub fn downcast_any_mut<T: Any>(&mut self) -> Option<&mut T> {
        // SAFETY: just a transparent reference cast
        self.downcast_mut::<TypeIdAdjuster<T>>()
            .map(|x| unsafe { &mut *(x as *mut _ as *mut T) })
    }

    /// See `downcast_any_ref`
    #[inline]
    pub fn downcast_any_box<T: Any>(self: Box<Self>) -> Result<Box<T>, Box<Self>> {
        // SAFETY: just a transparent reference cast
        self.downcast_box::<TypeIdAdjuster<T>>()
            .map(|x| unsafe { Box::from_raw(Box::into_raw(x) as *mut T) as _ })
    }
}

use std::cell::*;
use std::rc::*;
use std::sync::*;
tid!(impl<'a, T> TidAble<'a> for Box<T> where T:?Sized);
tid!(impl<'a, T> TidAble<'a> for Rc<T>);
tid!(impl<'a, T> TidAble<'a> for RefCell<T>);
tid!(impl<'a, T> TidAble<'a> for Cell<T>);
tid!(impl<'a, T> TidAble<'a> for Arc<T>);
tid!(impl<'a, T> TidAble<'a> for Mutex<T>);
tid!(impl<'a, T> TidAble<'a> for RwLock<T>);

// tid! {impl<'a, T> TidAble<'a> for Option<T>}
const _: () = {
    use core::marker::PhantomData;
    type __Alias<'a, T> = Option<T>;
    pub struct __TypeIdGenerator<'a, T: ?Sized>(PhantomData<&'a ()>, PhantomData<T>);
    unsafe impl<'a, T: TidAble<'a>> TidAble<'a> for __Alias<'a, T> {
        type Static = __TypeIdGenerator<'static, T::Static>;
    }
};

tid! {impl<'a, T> TidAble<'a> for Vec<T>}

tid! { impl<'a,T,E> TidAble<'a> for Result<T,E> }

tid! { impl<'a> TidAble<'a> for dyn Tid<'a> + 'a }

/// Main safe implementation interface of related unsafe traits
///
/// It uses syntax of regular Rust `impl` block but with parameters restricted enough to be sound.
/// In particular it is restricted to a single lifetime parameter in particular block.
/// and additional bounds must be in where clauses.
/// In trivial cases just type signature can be used.
///
/// ```rust
/// # use better_any::tid;
/// struct S;
/// tid!(S);
///
/// struct F<'a>(&'a str);
/// tid!(F<'a>);
///
/// struct Bar<'x,'y,X,Y>(&'x str,&'y str,X,Y);
/// tid!{ impl<'b,X,Y> TidAble<'b> for Bar<'b,'b,X,Y> }
///
/// trait Test<'a>{}
/// tid!{ impl<'b> TidAble<'b> for dyn Test<'b> + 'b }
/// ```
///
/// Implementation by default adds `TidAble<'a>` bound on all generic parameters.
/// This behavior can be opted out by specifying `'static` bound on corresponding type parameter.
/// Note that due to decl macro limitations it must be specified directly on type parameter
/// and **not** in where clauses:
/// ```rust
/// # use better_any::tid;
/// struct Test<'a,X:?Sized>(&'a str,Box<X>);
/// tid! { impl<'a,X:'static> Tid<'a> for Test<'a,X> where X:?Sized }
/// ```
///
#[macro_export]
macro_rules! tid {

    ($struct: ident) => {
        unsafe impl<'a> $crate::TidAble<'a> for $struct {
            type Static = $struct;
        }
    };
    ($struct: ident < $lt: lifetime >) => {
        unsafe impl<'a> $crate::TidAble<'a> for $struct<'a> {
            type Static = $struct<'static>;
        }
    };
    // no static parameters case
    (impl <$lt:lifetime $(,$param:ident)*> $tr:ident<$lt2:lifetime> for $($struct: tt)+ ) => {
        $crate::tid!{ inner impl <$lt $(,$param)* static> $tr<$lt2> for $($struct)+  }
    };

    //todo change macro to use attributes instead of 'static
    // inner submacro is used to check/fix/error on whether correct trait is being implemented
    (inner impl <$lt:lifetime $(,$param:ident)* static $( $static_param:ident)* > Tid<$lt2:lifetime> for $($struct: tt)+ ) => {
        $crate::tid!{ inner impl <$lt $(,$param)* static $( $static_param)*> TidAble<$lt2> for $($struct)+  }
    };
    (inner impl <$lt:lifetime $(,$param:ident)* static $( $static_param:ident)* > TidAble<$lt2:lifetime> for $($struct: tt)+ ) => {
        const _:() = {
            use core::marker::PhantomData;
            type __Alias<$lt $(,$param)* $(,$static_param)*>  = $crate::before_where!{ $($struct)+ };
            pub struct __TypeIdGenerator<$lt $(,$param:?Sized)* $(,$static_param:?Sized)*>
                (PhantomData<& $lt ()> $(,PhantomData<$param>)* $(,PhantomData<$static_param>)*);
            $crate::impl_block!{
                after where {  $($struct)+ }
                {unsafe impl<$lt $(,$param:$crate::TidAble<$lt>)* $(,$static_param: 'static)* > $crate::TidAble<$lt2> for __Alias<$lt $(,$param)* $(,$static_param)*>}

                {
                    type Static = __TypeIdGenerator<'static $(,$param::Static)* $(,$static_param)*>;
                }
            }
        };
    };
    (inner impl <$lt:lifetime $(,$param:ident)* static $( $static_param:ident)* > $tr:ident<$lt2:lifetime> for $($struct: tt)+ ) => {
        compile_error!{" wrong trait, should be TidAble or Tid "}
    };

    // temp submacro is used to separate 'static type parameters from other ones
    (temp $(,$param:ident)* static $(,$static_param:ident)* impl <$lt:lifetime , $token:ident : 'static $($tail: tt)+ ) => {
        $crate::tid!{ temp $(,$param)* static  $(,$static_param)* , $token  impl <$lt $($tail)+}
    };
    (temp $(,$param:ident)* static $(,$static_param:ident)* impl <$lt:lifetime , $token:ident $($tail: tt)+ ) => {
        $crate::tid!{ temp $(,$param)* ,$token static $(,$static_param)* impl <$lt $($tail)+ }
    };
    (temp $(,$param:ident)* static $(,$static_param:ident)* impl <$lt:lifetime> $($tail: tt)+ ) => {
        $crate::tid!{ inner impl <$lt $(,$param)* static $( $static_param)* > $($tail)+ }
    };
    // ( temp static  $($tail:tt)+ ) => {
    //     compile_error!{"invalid syntax"}
    // };
    ( impl $($tail: tt)+) => {
        $crate::tid!{ temp static impl $($tail)+ }
    };
}

#[doc(hidden)]
#[macro_export]
macro_rules! before_where {
    (inner { $($processed:tt)* } where     $($tokens:tt)* ) => { $($processed)* };
    (inner { $($processed:tt)* } $token:tt $($tokens:tt)* ) => {
        $crate::before_where!(inner { $($processed)* $token }  $($tokens)*)
    };
    (inner { $($processed:tt)* } ) => { $($processed)* };
    ($($tokens:tt)*) => {$crate::before_where!(inner {} $($tokens)*)};
}

//creates actual impl block while also extracting tokens after where
#[doc(hidden)]
#[macro_export]
macro_rules! impl_block {
    (
        after where {}
        {$($imp:tt)*}
        { $($block:tt)* }
    ) => {
        $($imp)*

        {
            $($block)*
        }
    };
    (
        after where { where $($bounds:tt)* }
        {$($imp:tt)*}
        { $($block:tt)* }
    ) => {
        $($imp)*
            where $($bounds)*
        {
            $($block)*
        }
    };
    (
        after where {$token:tt $($tokens:tt)*}
        {$($imp:tt)*}
        { $($block:tt)* }
    ) => {
        $crate::impl_block!{
            after where { $($tokens)*}
            {$($imp)*}
            { $($block)* }

        }
    };
}
// the logic behind these implementations is to connect Any with Tid somehow
// I would say that if T:Any there is no much need to implement Tid<'a> for T.
// because Any functionality already exists and `dyn Any` can be converted to `dyn Tid`.
// unfortunately there is no way to implement Tid<'a> for T:Any,
// which make impl<'a, T: Tid<'a>> Tid<'a> for &'a T {} almost useless
// because it wouldn't work even for &'a i32
// This way we don't require user to newtype wrapping simple references.
// And more complex types are usually not used as a type parameters directly.

tid! { impl<'a,T:'static> TidAble<'a> for &'a T }
tid! { impl<'a,T:'static> TidAble<'a> for &'a mut T }

/// Just an alias of `tid!` macro if someone considers that name to be more clear and for compatibility with previous versions.
///
/// ```rust
/// use better_any::type_id;
/// struct S;
/// type_id!(S);
/// struct F<'a>(&'a str);
/// type_id!(F<'a>);
/// ```
pub use tid as type_id;
// left it exported just to not needlessly break previous version code
// #[macro_export]
// macro_rules! type_id {
//     ($($tokens:tt)+) => { $crate::tid!{ $($tokens)+ } };
// }

/// unstable features that require nightly, use on your own risk
#[cfg(feature = "nightly")]
pub mod nightly;
