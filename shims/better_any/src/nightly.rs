use crate::Tid;
use std::any::Any;
use std::ops::CoerceUnsized;
use std::ptr::{DynMetadata, Pointee};
use std::rc::Rc;
use std::sync::Arc;

// todo support allocator for heap types
/// Implemented for types that can be converted to and from raw painter
pub trait IntoRawPtr {
    /// Contains lifetime of type if any.
    /// Required to enforce downcast pointer to have same lifetime as the input one.
    type Lifetime;
    /// Target of our pointer-like type
    type Pointee: ?Sized;

    /// Converts to raw pointer
    unsafe fn into_raw(self) -> *const Self::Pointee;
    /// Reconstruct Self from raw pointer
    unsafe fn from_raw(from: *const Self::Pointee) -> Self;
}

impl<T: ?Sized> IntoRawPtr for Box<T> {
    type Lifetime = ();
    type Pointee = T;

    unsafe fn into_raw(self) -> *const Self::Pointee {
        Box::into_raw(self)
    }

    unsafe fn from_raw(from: *const Self::Pointee) -> Self {
        Box::from_raw(from as *mut _)
    }
}

impl<T: ?Sized> IntoRawPtr for Rc<T> {
    type Lifetime = ();
    type Pointee = T;

    unsafe fn into_raw(self) -> *const Self::Pointee {
        Rc::into_raw(self)
    }

    unsafe fn from_raw(from: *const Self::Pointee) -> Self {
        Rc::from_raw(from)
    }
}

impl<T: ?Sized> IntoRawPtr for Arc<T> {
    type Lifetime = ();
    type Pointee = T;

    unsafe fn into_raw(self) -> *const Self::Pointee {
        Arc::into_raw(self)
    }

    unsafe fn from_raw(from: *const Self::Pointee) -> Self {
        Arc::from_raw(from)
    }
}

impl<'a, T: ?Sized> IntoRawPtr for &'a T {
    type Lifetime = &'a ();
    type Pointee = T;

    unsafe fn into_raw(self) -> *const Self::Pointee {
        self
    }

    unsafe fn from_raw(from: *const Self::Pointee) -> Self {
        &*from
    }
}

impl<'a, T: ?Sized> IntoRawPtr for &'a mut T {
    type Lifetime = &'a mut ();
    type Pointee = T;

    unsafe fn into_raw(self) -> *const Self::Pointee {
        self as *mut T as _
    }

    unsafe fn from_raw(from: *const Self::Pointee) -> Self {
        &mut *(from as *mut _)
    }
}

// tid!{impl<'a,X> TidAble<'a> for DynMetaData<X> where X:?Sized}

/// Helper trait to retrieve trait object type
pub trait DynMetadataType: Pointee<Metadata = DynMetadata<Self::Over>> {
    /// type inside of DynMetadata
    type Over: ?Sized + Pointee<Metadata = DynMetadata<Self::Over>>;
}

impl<T: ?Sized, X: ?Sized> DynMetadataType for X
where
    X: Pointee<Metadata = DynMetadata<T>>,
    T: Pointee<Metadata = DynMetadata<T>>,
{
    type Over = T;
}

fn get_callable_trait_object<T: ?Sized + DynMetadataType>(
    ptr: *const T,
) -> *const <T as DynMetadataType>::Over {
    let metadata = ptr.to_raw_parts().1;
    //SAFETY: currently there is no validity requirements for fat pointers that make data pointer and
    // vtable pointer in any way dependent.
    // Here both of these parts are valid independently which is enough for validity of resulting fat pointer
    core::ptr::from_raw_parts(&(), metadata)
}

/// Downcasts any kind of fat pointer type which vtable corresponds to a trait with `Tid` bound.
/// For example `Rc<RefCell<dyn Tid<'_>>>>` can be downcasted with this method
///
/// ```rust
/// # use better_any::nightly::{downcast_tid, DowncastExt};
/// # use better_any::{Tid,tid};
/// # use std::fmt::Debug;
/// struct Test(i32);
/// tid!(Test);
/// let a = Box::new(Test(5i32));
/// let any = a as Box<dyn Tid>;
/// let result: Box<Test> = downcast_tid(any).unwrap_or_else(|_| panic!("error"));
/// assert_eq!(5, result.0);
///```
pub fn downcast_tid<'a, From: IntoRawPtr, To: IntoRawPtr<Lifetime = From::Lifetime>>(
    f: From,
) -> Result<To, From>
where
    From::Pointee: Pointee + DynMetadataType,
    To::Pointee: Sized,
    // To: CoerceUnsized<From>, // required to make lifetimes of `To` and `From` to be the same
    *const To::Pointee: CoerceUnsized<*const From::Pointee>,
    <From::Pointee as DynMetadataType>::Over: Tid<'a>,
{
    let raw = unsafe { f.into_raw() };

    // get callable vtable for input type
    let vtable_only_pointer_from = unsafe { &*get_callable_trait_object(raw) };
    // get callable vtable for output type
    let vtable_only_pointer_to = unsafe {
        &*get_callable_trait_object(&() as *const () as *const To::Pointee as *const From::Pointee)
    };

    // self_id call does not access `&self`
    if vtable_only_pointer_from.self_id() == vtable_only_pointer_to.self_id() {
        unsafe { Ok(To::from_raw(raw as _)) }
    } else {
        Err(unsafe { From::from_raw(raw) })
    }
}

/// Downcasts any kind of fat pointer type which vtable corresponds to a trait with `Any` bound.
/// For example `Rc<RefCell<dyn Any>>>` can be downcasted with this method
///
///```rust
/// # use better_any::nightly::{downcast_any, DowncastExt};
/// # use std::any::Any;
/// # use std::fmt::Debug;
/// let a = 5i32;
/// let any = &a as &dyn Any;
/// let result: &i32 = downcast_any(any).unwrap();
/// assert_eq!(a, *result);
/// assert!(downcast_any::<_, &usize>(any).is_err());
///```
pub fn downcast_any<From: IntoRawPtr, To: IntoRawPtr<Lifetime = From::Lifetime>>(
    f: From,
) -> Result<To, From>
where
    From::Pointee: Pointee + DynMetadataType,
    To::Pointee: Sized,
    // To: CoerceUnsized<From>, // required to make lifetimes of `To` and `From` to be the same
    *const To::Pointee: CoerceUnsized<*const From::Pointee>,
    <From::Pointee as DynMetadataType>::Over: Any,
{
    let raw = unsafe { f.into_raw() };

    // get callable vtable for input type
    let vtable_only_pointer_from = unsafe { &*get_callable_trait_object(raw) };
    // get callable vtable for output type
    let vtable_only_pointer_to = unsafe {
        &*get_callable_trait_object(&() as *const () as *const To::Pointee as *const From::Pointee)
    };

    // self_id call does not access `&self`
    if vtable_only_pointer_from.type_id() == vtable_only_pointer_to.type_id() {
        unsafe { Ok(To::from_raw(raw as _)) }
    } else {
        Err(unsafe { From::from_raw(raw) })
    }
}

/// Most generic downcast methods with new nightly `ptr_metadata` api
///
/// Works on almost anything that have unsizing coercion.
/// In particular it can downcast `Arc<Mutex<dyn Any>>` to `Arc<Mutex<Concrete>>` without locking mutex.
/// Similar for `Rc<RefCell<dyn Trait>>`.
///
/// It is deliberately implemented only on trait objects.
pub trait DowncastExt: Sized + IntoRawPtr {
    /// Attempts to downcast `Self` which is some kind of compatible fat pointer type
    /// to `T` which is thin version to that pointer with concrete pointee type.
    ///
    /// ```rust
    /// # use better_any::nightly::{downcast_any, DowncastExt};
    /// # use std::any::Any;
    /// # use std::cell::{Cell, RefCell};
    /// # use std::fmt::Debug;
    /// # use std::rc::Rc;
    /// trait DebugAny: Debug + Any {}
    /// # impl<X: Debug + Any> DebugAny for X {}let rc = Rc::new(Cell::new(5i32));
    /// let debug_rc = rc.clone() as Rc<Cell<dyn DebugAny>>;
    /// let result: Rc<Cell<i32>> = debug_rc.clone().downcast_any().ok().unwrap();
    /// assert_eq!(rc.get(), result.get());
    /// assert!(debug_rc.downcast_any::<Rc<Cell<usize>>>().is_err());
    /// ```
    fn downcast_any<T>(self) -> Result<T, Self>
    where
        Self::Pointee: Pointee + DynMetadataType,
        T: IntoRawPtr<Lifetime = Self::Lifetime>,
        T::Pointee: Sized,
        *const T::Pointee: CoerceUnsized<*const Self::Pointee>,
        <Self::Pointee as DynMetadataType>::Over: Any,
    {
        downcast_any(self)
    }

    /// Same as `downcast_any` but for `Tid` types
    fn downcast_tid<'a, T: IntoRawPtr>(self) -> Result<T, Self>
    where
        Self::Pointee: Pointee + DynMetadataType,
        T: IntoRawPtr<Lifetime = Self::Lifetime>,
        T::Pointee: Sized,
        *const T::Pointee: CoerceUnsized<*const Self::Pointee>,
        <Self::Pointee as DynMetadataType>::Over: Tid<'a>,
    {
        downcast_tid(self)
    }
}

impl<T: IntoRawPtr> DowncastExt for T where T::Pointee: DynMetadataType {}

/// Checks that wrong lifetime doesn't work
/// ```rust,compile_fail
/// # use better_any::nightly::{downcast_any, DowncastExt};
/// # use std::any::Any;
/// # use std::fmt::Debug;
/// let a = 5i32;
/// let any = &a as &dyn Any;
/// let result: &'static i32 = downcast_any(any).unwrap();
///```
fn doc_test() {}
