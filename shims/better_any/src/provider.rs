use crate::Tid;


pub trait Provider<'x>: Tid<'x> {
    fn provide<'a>(&self, client: &mut Demand<'x>);
    fn provide_mut<'a>(&'a mut self, client: &mut Demand<'a, 'x>);
}

struct TypedOption<'a, 'x, T:Tid<'x>>(Option<T>);

trait Demander<'a,'x>{
    fn requests_for(&mut self,)
}


pub struct Demand<'a: 'x, 'x>(dyn Demander<'a, 'x> + 'a);
