//! Verification shim for `color-eyre`: only the `Section` trait, as no-ops.
pub use eyre;
use std::fmt::Display;
pub trait Section: Sized {
    type Return;
    fn note<D: Display + Send + Sync + 'static>(self, note: D) -> Self::Return;
    fn with_note<D: Display + Send + Sync + 'static, F: FnOnce() -> D>(self, f: F) -> Self::Return;
    fn suggestion<D: Display + Send + Sync + 'static>(self, s: D) -> Self::Return;
    fn with_suggestion<D: Display + Send + Sync + 'static, F: FnOnce() -> D>(self, f: F) -> Self::Return;
    fn warning<D: Display + Send + Sync + 'static>(self, s: D) -> Self::Return;
}
impl<T, E> Section for Result<T, E>
where
    E: Into<eyre::Report>,
{
    type Return = Result<T, eyre::Report>;
    fn note<D: Display + Send + Sync + 'static>(self, _n: D) -> Self::Return { self.map_err(Into::into) }
    fn with_note<D: Display + Send + Sync + 'static, F: FnOnce() -> D>(self, _f: F) -> Self::Return { self.map_err(Into::into) }
    fn suggestion<D: Display + Send + Sync + 'static>(self, _s: D) -> Self::Return { self.map_err(Into::into) }
    fn with_suggestion<D: Display + Send + Sync + 'static, F: FnOnce() -> D>(self, _f: F) -> Self::Return { self.map_err(Into::into) }
    fn warning<D: Display + Send + Sync + 'static>(self, _s: D) -> Self::Return { self.map_err(Into::into) }
}
