//! Verification shim for `eyre`: same control flow, no messages/backtraces/vtables.
use std::fmt;

pub struct Report {
    _private: (),
}
pub type Result<T, E = Report> = core::result::Result<T, E>;

impl Report {
    pub fn msg<M>(_message: M) -> Self
    where
        M: fmt::Display + fmt::Debug + Send + Sync + 'static,
    {
        Report { _private: () }
    }
    pub fn new<E>(_error: E) -> Self
    where
        E: std::error::Error + Send + Sync + 'static,
    {
        Report { _private: () }
    }
    pub fn wrap_err<D>(self, _msg: D) -> Self
    where
        D: fmt::Display + Send + Sync + 'static,
    {
        self
    }
}
impl fmt::Debug for Report {
    fn fmt(&self, f: &mut fmt::Formatter<'_>) -> fmt::Result {
        f.write_str("Report")
    }
}
impl fmt::Display for Report {
    fn fmt(&self, f: &mut fmt::Formatter<'_>) -> fmt::Result {
        f.write_str("Report")
    }
}
impl<E> From<E> for Report
where
    E: std::error::Error + Send + Sync + 'static,
{
    fn from(_error: E) -> Self {
        Report { _private: () }
    }
}

pub trait WrapErr<T, E>: Sized {
    fn wrap_err<D>(self, msg: D) -> Result<T, Report>
    where
        D: fmt::Display + Send + Sync + 'static;
    fn wrap_err_with<D, F>(self, f: F) -> Result<T, Report>
    where
        D: fmt::Display + Send + Sync + 'static,
        F: FnOnce() -> D;
}
impl<T, E> WrapErr<T, E> for core::result::Result<T, E>
where
    E: Into<Report>,
{
    fn wrap_err<D>(self, _msg: D) -> Result<T, Report>
    where
        D: fmt::Display + Send + Sync + 'static,
    {
        match self {
            Ok(t) => Ok(t),
            Err(e) => Err(e.into()),
        }
    }
    fn wrap_err_with<D, F>(self, _f: F) -> Result<T, Report>
    where
        D: fmt::Display + Send + Sync + 'static,
        F: FnOnce() -> D,
    {
        match self {
            Ok(t) => Ok(t),
            Err(e) => Err(e.into()),
        }
    }
}
pub trait ContextCompat<T>: Sized {
    fn wrap_err<D>(self, msg: D) -> Result<T, Report>
    where
        D: fmt::Display + Send + Sync + 'static;
    fn context<D>(self, msg: D) -> Result<T, Report>
    where
        D: fmt::Display + Send + Sync + 'static;
}
impl<T> ContextCompat<T> for Option<T> {
    fn wrap_err<D>(self, _msg: D) -> Result<T, Report>
    where
        D: fmt::Display + Send + Sync + 'static,
    {
        match self {
            Some(t) => Ok(t),
            None => Err(Report { _private: () }),
        }
    }
    fn context<D>(self, _msg: D) -> Result<T, Report>
    where
        D: fmt::Display + Send + Sync + 'static,
    {
        match self {
            Some(t) => Ok(t),
            None => Err(Report { _private: () }),
        }
    }
}

#[doc(hidden)]
pub mod private {
    pub fn new() -> super::Report {
        super::Report { _private: () }
    }
}

#[macro_export]
macro_rules! eyre {
    ($($t:tt)*) => {
        $crate::private::new()
    };
}
#[macro_export]
macro_rules! bail {
    ($($t:tt)*) => {
        return ::core::result::Result::Err($crate::private::new())
    };
}
#[macro_export]
macro_rules! ensure {
    ($cond:expr $(,)?) => {
        if !$cond {
            return ::core::result::Result::Err($crate::private::new());
        }
    };
    ($cond:expr, $($t:tt)*) => {
        if !$cond {
            return ::core::result::Result::Err($crate::private::new());
        }
    };
}
