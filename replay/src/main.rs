//! Native replay of a Kani counterexample against the unmodified crate.
//! usage: vreplay <replay.json>
//! Prints `REPLAY-RESULT: reproduced <panic message>` | `clean` | `assume-violated` | `desync`.
use std::panic;

fn parse_bytes(txt: &str) -> Vec<Vec<u8>> {
    // minimal JSON scan: find "bytes": [ [..], [..] ]
    let i = txt.find("\"bytes\"").expect("no bytes key");
    let rest = &txt[i..];
    let start = rest.find('[').expect("no array");
    let mut depth = 0i32;
    let mut cur: Vec<u8> = Vec::new();
    let mut num = String::new();
    let mut out = Vec::new();
    for ch in rest[start..].chars() {
        match ch {
            '[' => {
                depth += 1;
                if depth == 2 {
                    cur = Vec::new();
                }
            }
            ']' => {
                if !num.is_empty() {
                    cur.push(num.parse::<u32>().unwrap() as u8);
                    num.clear();
                }
                if depth == 2 {
                    out.push(std::mem::take(&mut cur));
                }
                depth -= 1;
                if depth == 0 {
                    break;
                }
            }
            ',' => {
                if !num.is_empty() {
                    cur.push(num.parse::<u32>().unwrap() as u8);
                    num.clear();
                }
            }
            c if c.is_ascii_digit() => num.push(c),
            _ => {}
        }
    }
    out
}

fn parse_harness(txt: &str) -> String {
    let i = txt.find("\"harness\"").expect("no harness key");
    let rest = &txt[i + 9..];
    let a = rest.find('"').unwrap();
    let b = rest[a + 1..].find('"').unwrap();
    rest[a + 1..a + 1 + b].to_string()
}

fn main() {
    let path = std::env::args().nth(1).expect("usage: vreplay <replay.json>");
    let txt = std::fs::read_to_string(&path).expect("cannot read replay file");
    let name = parse_harness(&txt);
    let bytes = parse_bytes(&txt);
    let f = match vkani::registry::lookup(&name) {
        Some(f) => f,
        None => {
            println!("REPLAY-RESULT: error unknown harness {}", name);
            std::process::exit(2);
        }
    };
    vkani::sym::load(bytes);
    let r = panic::catch_unwind(f);
    let (used, total) = vkani::sym::consumed();
    match r {
        Ok(()) => println!("REPLAY-RESULT: clean (draws used {}/{})", used, total),
        Err(e) => {
            let msg = if let Some(s) = e.downcast_ref::<&str>() {
                s.to_string()
            } else if let Some(s) = e.downcast_ref::<String>() {
                s.clone()
            } else {
                "<non-string panic>".to_string()
            };
            let msg = msg.replace('\n', " ");
            if msg.contains("REPLAY-ASSUME-VIOLATED") {
                println!("REPLAY-RESULT: assume-violated (draws used {}/{})", used, total);
            } else if msg.contains("REPLAY-DESYNC") {
                println!("REPLAY-RESULT: desync {}", msg);
            } else {
                println!("REPLAY-RESULT: reproduced {} (draws used {}/{})", msg, used, total);
            }
        }
    }
}
