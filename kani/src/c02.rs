//! c02 — harnesses not written yet.
