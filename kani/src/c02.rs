//! C02 — dynamic borrows: many readers xor one writer per type; conflicts are errors.
//! Code: mahf::state::registry::StateRegistry::{try_borrow,try_borrow_mut,borrow,borrow_mut,try_get_value,try_borrow_value,try_borrow_value_mut,set_value,get_mut,try_get_multiple_mut,get_multiple_mut}
//! Code: mahf::state::registry::multi::MultiStateTuple::{distinct,try_get_mut} (tuple arities 2..4), mahf::State::holding, mahf::StateError variants
//! Out: more than 4 simultaneously live guards; tuple arities 5..8 (same macro, not instantiated here); std's RefCell is real code
//! Assume: guard scenarios are fixed scripts with symbolic values and symbolic release order; multi-borrow harnesses keep CBMC's memory-safety checks on (memsafe=1)
use better_any::{Tid, TidAble};
use derive_more::{Deref, DerefMut};
use mahf::state::registry::StateRegistry;
use mahf::{CustomState, State, StateError};

use crate::problems::TagP;
use crate::sym;

#[derive(Tid, Deref, DerefMut, Default)]
pub struct A(pub u8);
impl CustomState<'_> for A {}
#[derive(Tid, Deref, DerefMut, Default)]
pub struct B(pub u8);
impl CustomState<'_> for B {}
#[derive(Tid, Deref, DerefMut, Default)]
pub struct C(pub u8);
impl CustomState<'_> for C {}
#[derive(Tid, Deref, DerefMut, Default)]
pub struct D(pub u8);
impl CustomState<'_> for D {}

fn reg_ab(a: u8, b: u8) -> StateRegistry<'static> {
    let mut reg = StateRegistry::new();
    reg.insert(A(a));
    reg.insert(B(b));
    reg
}

/// @h tier=quick bound="single scope {A,B}: two shared guards, exclusive refused, other type unaffected, symbolic release order" unwind=4 cost=2
#[cfg_attr(kani, kani::proof)]
#[cfg_attr(kani, kani::unwind(4))]
pub fn h_c02_readers_block_writer() {
    let (a, b, x) = (sym::u8(), sym::u8(), sym::u8());
    let reg = reg_ab(a, b);
    let r1 = reg.try_borrow::<A>();
    let r2 = reg.try_borrow::<A>();
    assert!(matches!(&r1, Ok(g) if g.0 == a) && matches!(&r2, Ok(g) if g.0 == a), "any number of shared guards is granted");
    assert!(matches!(reg.try_borrow_mut::<A>(), Err(StateError::BorrowConflictMut(..))), "exclusive request while shared guards exist is refused with a borrow-conflict error");
    assert!(matches!(reg.try_borrow_value_mut::<A>(), Err(StateError::BorrowConflictMut(..))), "value-level exclusive request is refused too");
    assert!(reg.set_value::<A>(x).is_none(), "set_value does not write through a conflict");
    assert!(reg.try_get_value::<A>().ok() == Some(a), "shared reads still work");
    // a different type is not affected
    match reg.try_borrow_mut::<B>() {
        Ok(mut g) => g.0 = x,
        Err(_) => assert!(false, "guards for different types never interfere"),
    }
    assert!(reg.try_get_value::<B>().ok() == Some(x), "what was written through an exclusive guard is what later readers see");
    // release in a symbolic order: the writer is admitted only after BOTH are gone
    if sym::bool() {
        drop(r1);
        assert!(reg.try_borrow_mut::<A>().is_err(), "one remaining shared guard still blocks the writer");
        drop(r2);
    } else {
        drop(r2);
        assert!(reg.try_borrow_mut::<A>().is_err(), "one remaining shared guard still blocks the writer");
        drop(r1);
    }
    match reg.try_borrow_mut::<A>() {
        Ok(mut g) => g.0 = x,
        Err(_) => assert!(false, "dropping the guards makes the state available again"),
    }
    assert!(reg.try_get_value::<A>().ok() == Some(x), "written value is visible");
    vcover!(true, "reached");
    std::mem::forget(reg);
}

/// @h tier=quick bound="single scope {A,B}: one exclusive guard refuses shared and exclusive requests" unwind=4 cost=2
#[cfg_attr(kani, kani::proof)]
#[cfg_attr(kani, kani::unwind(4))]
pub fn h_c02_writer_blocks_all() {
    let (a, b, x) = (sym::u8(), sym::u8(), sym::u8());
    let reg = reg_ab(a, b);
    {
        let w = reg.try_borrow_mut::<A>();
        assert!(w.is_ok(), "exclusive guard on a free state is granted");
        assert!(matches!(reg.try_borrow::<A>(), Err(StateError::BorrowConflictImm(..))), "shared request while an exclusive guard exists is refused");
        assert!(matches!(reg.try_borrow_mut::<A>(), Err(StateError::BorrowConflictMut(..))), "second exclusive request is refused");
        assert!(matches!(reg.try_get_value::<A>(), Err(StateError::BorrowConflictImm(..))), "value read is refused, not granted");
        assert!(matches!(reg.try_borrow_value::<A>(), Err(StateError::BorrowConflictImm(..))), "value borrow is refused");
        assert!(reg.try_borrow::<B>().is_ok() && reg.try_get_value::<B>().ok() == Some(b), "other type unaffected");
        if let Ok(mut g) = w {
            g.0 = x;
        }
    }
    assert!(reg.try_get_value::<A>().ok() == Some(x), "after the guard is dropped every reader sees the written value");
    assert!(reg.try_borrow_mut::<A>().is_ok(), "available again");
    vcover!(true, "reached");
    std::mem::forget(reg);
}

/// @h tier=quick bound="two scopes, A in both: guards on the inner A and on the outer A never interfere" unwind=5 cost=2
#[cfg_attr(kani, kani::proof)]
#[cfg_attr(kani, kani::unwind(5))]
pub fn h_c02_scopes_do_not_interfere() {
    let (a0, a1, x) = (sym::u8(), sym::u8(), sym::u8());
    let mut reg = StateRegistry::new();
    reg.insert(A(a0));
    let mut reg = reg.into_child();
    reg.insert(A(a1));
    {
        let inner = reg.try_borrow_mut::<A>();
        assert!(matches!(&inner, Ok(g) if g.0 == a1), "the innermost scope's state is borrowed");
        let parent = match reg.parent() {
            Some(p) => p,
            None => {
                assert!(false, "parent exists");
                return;
            }
        };
        match parent.try_borrow_mut::<A>() {
            Ok(mut g) => {
                assert!(g.0 == a0, "the outer state of the same type");
                g.0 = x;
            }
            Err(_) => assert!(false, "the same type in a different scope is not affected by the guard"),
        }
        assert!(reg.try_borrow::<A>().is_err(), "the inner one is still exclusively held");
    }
    assert!(reg.try_get_value::<A>().ok() == Some(a1), "inner value untouched");
    let (p, _) = reg.into_parent();
    match p {
        Some(p) => {
            assert!(p.try_get_value::<A>().ok() == Some(x), "outer value written through its own guard");
            std::mem::forget(p);
        }
        None => assert!(false, "parent exists"),
    }
    vcover!(true, "reached");
}

/// The explicitly panicking accessors panic on a conflict (and only then).
/// @h tier=quick bound="borrow_mut on a state with a live shared guard panics" unwind=4 cost=2
#[cfg_attr(kani, kani::proof)]
#[cfg_attr(kani, kani::unwind(4))]
#[cfg_attr(kani, kani::should_panic)]
pub fn h_c02_borrow_mut_conflict_panics() {
    let reg = reg_ab(sym::u8(), sym::u8());
    let _r = reg.borrow::<A>();
    let _w = reg.borrow_mut::<A>();
}
/// @h tier=quick bound="the panicking accessors do not panic on free states" unwind=4 cost=2
#[cfg_attr(kani, kani::proof)]
#[cfg_attr(kani, kani::unwind(4))]
pub fn h_c02_panicking_accessors_free() {
    let (a, b) = (sym::u8(), sym::u8());
    let reg = reg_ab(a, b);
    {
        let r = reg.borrow::<A>();
        let mut w = reg.borrow_mut::<B>();
        w.0 = r.0;
    }
    assert!(reg.get_value::<B>() == a, "borrow/borrow_mut/get_value on free states work");
    {
        let mut v = reg.borrow_value_mut::<A>();
        *v = b;
    }
    assert!(*reg.borrow_value::<A>() == b, "value accessors work");
    vcover!(true, "reached");
    std::mem::forget(reg);
}

// ---- holding --------------------------------------------------------------------------------------------

/// `holding::<T>` takes T out, runs the closure next to the rest of the state, and puts T back
/// into the scope it came from — whether or not the closure fails.
fn holding(t_in_parent: bool) {
    let (a, b, x) = (sym::u8(), sym::u8(), sym::u8());
    let fail = sym::bool();
    let mut reg = StateRegistry::new();
    reg.insert(B(b));
    if t_in_parent {
        reg.insert(A(a));
    }
    let mut reg = reg.into_child();
    if !t_in_parent {
        reg.insert(A(a));
    }
    let mut s: State<'static, TagP> = State::from(reg);
    let r = s.holding::<A>(|t, rest| {
        assert!(t.0 == a, "the closure gets the state that was taken out");
        assert!(!rest.contains::<A>(), "while held, the state is not in the registry");
        assert!(rest.try_get_value::<B>().ok() == Some(b), "the rest of the state is usable");
        t.0 = x;
        if fail {
            Err(eyre::eyre!("closure fails"))
        } else {
            Ok(())
        }
    });
    assert!(r.is_err() == fail, "holding returns the closure's result");
    assert!(s.try_get_value::<A>().ok() == Some(x), "the state is put back (with the closure's modification) whether or not the closure failed");
    assert!(s.contains_at_top::<A>() == !t_in_parent, "the state is put back into the scope it came from");
    let reg: StateRegistry = s.into();
    let (parent, top) = reg.into_parent();
    assert!(top.contains_at_top::<A>() == !t_in_parent, "inner scope membership");
    match parent {
        Some(p) => {
            assert!(p.contains_at_top::<A>() == t_in_parent, "outer scope membership");
            assert!(p.try_get_value::<B>().ok() == Some(b), "other state untouched");
            std::mem::forget(p);
        }
        None => assert!(false, "parent exists"),
    }
    vcover!(fail, "closure failed");
    vcover!(!fail, "closure succeeded");
    std::mem::forget(top);
}
/// @h tier=quick bound="T in the top scope of two; closure outcome symbolic" unwind=5 cost=4
#[cfg_attr(kani, kani::proof)]
#[cfg_attr(kani, kani::unwind(5))]
pub fn h_c02_holding_top() {
    holding(false)
}
/// @h tier=quick bound="T in the parent scope of two; closure outcome symbolic" unwind=5 cost=4
#[cfg_attr(kani, kani::proof)]
#[cfg_attr(kani, kani::unwind(5))]
pub fn h_c02_holding_parent() {
    holding(true)
}
/// A failing `holding` leaves nothing behind that a later `holding` trips over: history
/// shadow T in an inner scope; holding fails there; remove the shadow; holding again (succeeds)
/// — the outer T is put back into the OUTER scope.
/// @h tier=quick bound="two scopes, four-step history with a failing then a succeeding holding" unwind=5 cost=5 mem=10
#[cfg_attr(kani, kani::proof)]
#[cfg_attr(kani, kani::unwind(5))]
pub fn h_c02_holding_history() {
    let (a0, a1, x) = (sym::u8(), sym::u8(), sym::u8());
    let mut reg = StateRegistry::new();
    reg.insert(A(a0));
    let mut reg = reg.into_child();
    reg.insert(A(a1));
    let mut s: State<'static, TagP> = State::from(reg);
    let r1 = s.holding::<A>(|t, _rest| {
        assert!(t.0 == a1, "the innermost state is held");
        Err(eyre::eyre!("closure fails"))
    });
    assert!(r1.is_err(), "the failure is reported");
    assert!(s.contains_at_top::<A>() && s.try_get_value::<A>().ok() == Some(a1), "and the shadowing state is back in the inner scope");
    let shadow = s.take::<A>();
    assert!(shadow.0 == a1, "the shadow is removed");
    let r2 = s.holding::<A>(|t, rest| {
        assert!(t.0 == a0 && !rest.contains::<A>(), "now the outer state is held");
        t.0 = x;
        Ok(())
    });
    assert!(r2.is_ok(), "second holding succeeds");
    assert!(!s.contains_at_top::<A>(), "the outer state is NOT put into the inner scope");
    let reg: StateRegistry = s.into();
    let (parent, top) = reg.into_parent();
    match parent {
        Some(p) => {
            assert!(p.try_get_value::<A>().ok() == Some(x), "the outer state is back in the outer scope, with the modification");
            std::mem::forget(p);
        }
        None => assert!(false, "parent exists"),
    }
    vcover!(true, "reached");
    std::mem::forget(top);
}

/// @h tier=quick bound="holding a type that is absent is an error and changes nothing" unwind=5 cost=2
#[cfg_attr(kani, kani::proof)]
#[cfg_attr(kani, kani::unwind(5))]
pub fn h_c02_holding_absent() {
    let b = sym::u8();
    let mut reg = StateRegistry::new();
    reg.insert(B(b));
    let mut s: State<'static, TagP> = State::from(reg);
    let r = s.holding::<A>(|_t, _rest| {
        assert!(false, "the closure does not run when the state is absent");
        Ok(())
    });
    assert!(r.is_err(), "absent state is an error");
    assert!(s.try_get_value::<B>().ok() == Some(b) && !s.contains::<A>(), "nothing changed");
    vcover!(true, "reached");
    std::mem::forget(s);
}

// ---- multi-borrow: one harness per tuple type ------------------------------------------------------------

fn reg_abcd(v: [u8; 4]) -> StateRegistry<'static> {
    let mut reg = StateRegistry::new();
    reg.insert(A(v[0]));
    reg.insert(B(v[1]));
    reg.insert(C(v[2]));
    reg.insert(D(v[3]));
    reg
}
fn distinct_addrs(a: &[usize]) -> bool {
    let mut i = 0;
    while i < a.len() {
        let mut j = 0;
        while j < i {
            if a[i] == a[j] {
                return false;
            }
            j += 1;
        }
        i += 1;
    }
    true
}

/// @h tier=quick bound="tuple (A,C) with C absent: NotFound; (A,B) granted afterwards" unwind=5 memsafe=1 cost=2
#[cfg_attr(kani, kani::proof)]
#[cfg_attr(kani, kani::unwind(5))]
pub fn h_c02_multi_missing() {
    let (a, b) = (sym::u8(), sym::u8());
    let mut reg = reg_ab(a, b);
    assert!(matches!(reg.try_get_multiple_mut::<(A, C)>(), Err(StateError::NotFound(_))), "a missing type is reported as NotFound");
    assert!(matches!(reg.try_get_multiple_mut::<(C, A)>(), Err(StateError::NotFound(_))), "a missing type is reported as NotFound (first position)");
    assert!(reg.try_get_multiple_mut::<(A, B)>().is_ok(), "present distinct types are granted");
    vcover!(true, "reached");
    std::mem::forget(reg);
}

/// Scopes: every type of the tuple resolves to ITS OWN innermost scope.
/// @h tier=quick bound="two scopes: A only in the parent, B in both (shadowed): (A,B) and (B,A)" unwind=6 memsafe=1 cost=3
#[cfg_attr(kani, kani::proof)]
#[cfg_attr(kani, kani::unwind(6))]
pub fn h_c02_multi_scopes() {
    let (a, b0, b1, x, y) = (sym::u8(), sym::u8(), sym::u8(), sym::u8(), sym::u8());
    let mut reg = StateRegistry::new();
    reg.insert(A(a));
    reg.insert(B(b0));
    let mut reg = reg.into_child();
    reg.insert(B(b1));
    match reg.try_get_multiple_mut::<(A, B)>() {
        Ok((ra, rb)) => {
            assert!(ra.0 == a && rb.0 == b1, "each type resolves to its own innermost scope");
            ra.0 = x;
            rb.0 = y;
        }
        Err(_) => assert!(false, "granted"),
    }
    match reg.try_get_multiple_mut::<(B, A)>() {
        Ok((rb, ra)) => assert!(ra.0 == x && rb.0 == y, "order of the tuple does not matter"),
        Err(_) => assert!(false, "granted"),
    }
    let (p, top) = reg.into_parent();
    assert!(top.try_get_value::<B>().ok() == Some(y), "inner B written");
    match p {
        Some(p) => {
            assert!(p.try_get_value::<B>().ok() == Some(b0) && p.try_get_value::<A>().ok() == Some(x), "shadowed outer B unchanged, outer A written");
            std::mem::forget(p);
        }
        None => assert!(false, "parent exists"),
    }
    vcover!(true, "reached");
    std::mem::forget(top);
}

// ==== generated harness list (tools/gen/gen_c02.py) ====
// @h tier=quick bound="tuple type (A, A) over a registry holding A,B,C,D; symbolic values" unwind=5 memsafe=1 cost=2
#[cfg_attr(kani, kani::proof)]
#[cfg_attr(kani, kani::unwind(7))]
pub fn h_c02_multi_aa() {
    let init = [sym::u8(), sym::u8(), sym::u8(), sym::u8()];
    let mut reg = reg_abcd(init);
    assert!(matches!(reg.try_get_multiple_mut::<(A, A)>(), Err(StateError::MultipleBorrowConflict(_))), "a tuple in which a type repeats is refused");
    assert!(reg.try_get_value::<A>().ok() == Some(init[0]) && reg.try_get_value::<C>().ok() == Some(init[2]), "nothing changed");
    vcover!(true, "reached");
    std::mem::forget(reg);
}
// @h tier=quick bound="tuple type (A, B) over a registry holding A,B,C,D; symbolic values" unwind=5 memsafe=1 cost=2
#[cfg_attr(kani, kani::proof)]
#[cfg_attr(kani, kani::unwind(7))]
pub fn h_c02_multi_ab() {
    let init = [sym::u8(), sym::u8(), sym::u8(), sym::u8()];
    let mut reg = reg_abcd(init);
    let v = [sym::u8(), sym::u8(), sym::u8(), sym::u8()];
    match reg.try_get_multiple_mut::<(A, B)>() {
        Ok((r0, r1)) => {
            let addrs = [r0 as *mut _ as usize, r1 as *mut _ as usize];
            assert!(distinct_addrs(&addrs), "distinct types yield references to distinct objects");
            r0.0 = v[0];
            r1.0 = v[1];
        }
        Err(_) => assert!(false, "a tuple of distinct, present types is granted"),
    }
    assert!(reg.try_get_value::<A>().ok() == Some(v[0]), "what was written through the references is read back");
    assert!(reg.try_get_value::<B>().ok() == Some(v[1]), "what was written through the references is read back");
    assert!(reg.try_get_value::<C>().ok() == Some(init[2]), "types outside the tuple are untouched");
    assert!(reg.try_get_value::<D>().ok() == Some(init[3]), "types outside the tuple are untouched");
    vcover!(true, "reached");
    std::mem::forget(reg);
}
// @h tier=quick bound="tuple type (B, A) over a registry holding A,B,C,D; symbolic values" unwind=5 memsafe=1 cost=2
#[cfg_attr(kani, kani::proof)]
#[cfg_attr(kani, kani::unwind(7))]
pub fn h_c02_multi_ba() {
    let init = [sym::u8(), sym::u8(), sym::u8(), sym::u8()];
    let mut reg = reg_abcd(init);
    let v = [sym::u8(), sym::u8(), sym::u8(), sym::u8()];
    match reg.try_get_multiple_mut::<(B, A)>() {
        Ok((r0, r1)) => {
            let addrs = [r0 as *mut _ as usize, r1 as *mut _ as usize];
            assert!(distinct_addrs(&addrs), "distinct types yield references to distinct objects");
            r0.0 = v[0];
            r1.0 = v[1];
        }
        Err(_) => assert!(false, "a tuple of distinct, present types is granted"),
    }
    assert!(reg.try_get_value::<B>().ok() == Some(v[0]), "what was written through the references is read back");
    assert!(reg.try_get_value::<A>().ok() == Some(v[1]), "what was written through the references is read back");
    assert!(reg.try_get_value::<C>().ok() == Some(init[2]), "types outside the tuple are untouched");
    assert!(reg.try_get_value::<D>().ok() == Some(init[3]), "types outside the tuple are untouched");
    vcover!(true, "reached");
    std::mem::forget(reg);
}
// @h tier=thorough bound="tuple type (A, C) over a registry holding A,B,C,D; symbolic values" unwind=5 memsafe=1 cost=2
#[cfg_attr(kani, kani::proof)]
#[cfg_attr(kani, kani::unwind(7))]
pub fn h_c02_multi_ac() {
    let init = [sym::u8(), sym::u8(), sym::u8(), sym::u8()];
    let mut reg = reg_abcd(init);
    let v = [sym::u8(), sym::u8(), sym::u8(), sym::u8()];
    match reg.try_get_multiple_mut::<(A, C)>() {
        Ok((r0, r1)) => {
            let addrs = [r0 as *mut _ as usize, r1 as *mut _ as usize];
            assert!(distinct_addrs(&addrs), "distinct types yield references to distinct objects");
            r0.0 = v[0];
            r1.0 = v[1];
        }
        Err(_) => assert!(false, "a tuple of distinct, present types is granted"),
    }
    assert!(reg.try_get_value::<A>().ok() == Some(v[0]), "what was written through the references is read back");
    assert!(reg.try_get_value::<C>().ok() == Some(v[1]), "what was written through the references is read back");
    assert!(reg.try_get_value::<B>().ok() == Some(init[1]), "types outside the tuple are untouched");
    assert!(reg.try_get_value::<D>().ok() == Some(init[3]), "types outside the tuple are untouched");
    vcover!(true, "reached");
    std::mem::forget(reg);
}
// @h tier=thorough bound="tuple type (B, B) over a registry holding A,B,C,D; symbolic values" unwind=5 memsafe=1 cost=2
#[cfg_attr(kani, kani::proof)]
#[cfg_attr(kani, kani::unwind(7))]
pub fn h_c02_multi_bb() {
    let init = [sym::u8(), sym::u8(), sym::u8(), sym::u8()];
    let mut reg = reg_abcd(init);
    assert!(matches!(reg.try_get_multiple_mut::<(B, B)>(), Err(StateError::MultipleBorrowConflict(_))), "a tuple in which a type repeats is refused");
    assert!(reg.try_get_value::<A>().ok() == Some(init[0]) && reg.try_get_value::<C>().ok() == Some(init[2]), "nothing changed");
    vcover!(true, "reached");
    std::mem::forget(reg);
}
// @h tier=thorough bound="tuple type (B, C) over a registry holding A,B,C,D; symbolic values" unwind=5 memsafe=1 cost=2
#[cfg_attr(kani, kani::proof)]
#[cfg_attr(kani, kani::unwind(7))]
pub fn h_c02_multi_bc() {
    let init = [sym::u8(), sym::u8(), sym::u8(), sym::u8()];
    let mut reg = reg_abcd(init);
    let v = [sym::u8(), sym::u8(), sym::u8(), sym::u8()];
    match reg.try_get_multiple_mut::<(B, C)>() {
        Ok((r0, r1)) => {
            let addrs = [r0 as *mut _ as usize, r1 as *mut _ as usize];
            assert!(distinct_addrs(&addrs), "distinct types yield references to distinct objects");
            r0.0 = v[0];
            r1.0 = v[1];
        }
        Err(_) => assert!(false, "a tuple of distinct, present types is granted"),
    }
    assert!(reg.try_get_value::<B>().ok() == Some(v[0]), "what was written through the references is read back");
    assert!(reg.try_get_value::<C>().ok() == Some(v[1]), "what was written through the references is read back");
    assert!(reg.try_get_value::<A>().ok() == Some(init[0]), "types outside the tuple are untouched");
    assert!(reg.try_get_value::<D>().ok() == Some(init[3]), "types outside the tuple are untouched");
    vcover!(true, "reached");
    std::mem::forget(reg);
}
// @h tier=thorough bound="tuple type (C, A) over a registry holding A,B,C,D; symbolic values" unwind=5 memsafe=1 cost=2
#[cfg_attr(kani, kani::proof)]
#[cfg_attr(kani, kani::unwind(7))]
pub fn h_c02_multi_ca() {
    let init = [sym::u8(), sym::u8(), sym::u8(), sym::u8()];
    let mut reg = reg_abcd(init);
    let v = [sym::u8(), sym::u8(), sym::u8(), sym::u8()];
    match reg.try_get_multiple_mut::<(C, A)>() {
        Ok((r0, r1)) => {
            let addrs = [r0 as *mut _ as usize, r1 as *mut _ as usize];
            assert!(distinct_addrs(&addrs), "distinct types yield references to distinct objects");
            r0.0 = v[0];
            r1.0 = v[1];
        }
        Err(_) => assert!(false, "a tuple of distinct, present types is granted"),
    }
    assert!(reg.try_get_value::<C>().ok() == Some(v[0]), "what was written through the references is read back");
    assert!(reg.try_get_value::<A>().ok() == Some(v[1]), "what was written through the references is read back");
    assert!(reg.try_get_value::<B>().ok() == Some(init[1]), "types outside the tuple are untouched");
    assert!(reg.try_get_value::<D>().ok() == Some(init[3]), "types outside the tuple are untouched");
    vcover!(true, "reached");
    std::mem::forget(reg);
}
// @h tier=thorough bound="tuple type (C, B) over a registry holding A,B,C,D; symbolic values" unwind=5 memsafe=1 cost=2
#[cfg_attr(kani, kani::proof)]
#[cfg_attr(kani, kani::unwind(7))]
pub fn h_c02_multi_cb() {
    let init = [sym::u8(), sym::u8(), sym::u8(), sym::u8()];
    let mut reg = reg_abcd(init);
    let v = [sym::u8(), sym::u8(), sym::u8(), sym::u8()];
    match reg.try_get_multiple_mut::<(C, B)>() {
        Ok((r0, r1)) => {
            let addrs = [r0 as *mut _ as usize, r1 as *mut _ as usize];
            assert!(distinct_addrs(&addrs), "distinct types yield references to distinct objects");
            r0.0 = v[0];
            r1.0 = v[1];
        }
        Err(_) => assert!(false, "a tuple of distinct, present types is granted"),
    }
    assert!(reg.try_get_value::<C>().ok() == Some(v[0]), "what was written through the references is read back");
    assert!(reg.try_get_value::<B>().ok() == Some(v[1]), "what was written through the references is read back");
    assert!(reg.try_get_value::<A>().ok() == Some(init[0]), "types outside the tuple are untouched");
    assert!(reg.try_get_value::<D>().ok() == Some(init[3]), "types outside the tuple are untouched");
    vcover!(true, "reached");
    std::mem::forget(reg);
}
// @h tier=thorough bound="tuple type (C, C) over a registry holding A,B,C,D; symbolic values" unwind=5 memsafe=1 cost=2
#[cfg_attr(kani, kani::proof)]
#[cfg_attr(kani, kani::unwind(7))]
pub fn h_c02_multi_cc() {
    let init = [sym::u8(), sym::u8(), sym::u8(), sym::u8()];
    let mut reg = reg_abcd(init);
    assert!(matches!(reg.try_get_multiple_mut::<(C, C)>(), Err(StateError::MultipleBorrowConflict(_))), "a tuple in which a type repeats is refused");
    assert!(reg.try_get_value::<A>().ok() == Some(init[0]) && reg.try_get_value::<C>().ok() == Some(init[2]), "nothing changed");
    vcover!(true, "reached");
    std::mem::forget(reg);
}
// @h tier=quick bound="tuple type (A, A, A) over a registry holding A,B,C,D; symbolic values" unwind=6 memsafe=1 cost=2
#[cfg_attr(kani, kani::proof)]
#[cfg_attr(kani, kani::unwind(7))]
pub fn h_c02_multi_aaa() {
    let init = [sym::u8(), sym::u8(), sym::u8(), sym::u8()];
    let mut reg = reg_abcd(init);
    assert!(matches!(reg.try_get_multiple_mut::<(A, A, A)>(), Err(StateError::MultipleBorrowConflict(_))), "a tuple in which a type repeats is refused");
    assert!(reg.try_get_value::<A>().ok() == Some(init[0]) && reg.try_get_value::<C>().ok() == Some(init[2]), "nothing changed");
    vcover!(true, "reached");
    std::mem::forget(reg);
}
// @h tier=quick bound="tuple type (A, A, B) over a registry holding A,B,C,D; symbolic values" unwind=6 memsafe=1 cost=2
#[cfg_attr(kani, kani::proof)]
#[cfg_attr(kani, kani::unwind(7))]
pub fn h_c02_multi_aab() {
    let init = [sym::u8(), sym::u8(), sym::u8(), sym::u8()];
    let mut reg = reg_abcd(init);
    assert!(matches!(reg.try_get_multiple_mut::<(A, A, B)>(), Err(StateError::MultipleBorrowConflict(_))), "a tuple in which a type repeats is refused");
    assert!(reg.try_get_value::<A>().ok() == Some(init[0]) && reg.try_get_value::<C>().ok() == Some(init[2]), "nothing changed");
    vcover!(true, "reached");
    std::mem::forget(reg);
}
// @h tier=quick bound="tuple type (A, B, A) over a registry holding A,B,C,D; symbolic values" unwind=6 memsafe=1 cost=2
#[cfg_attr(kani, kani::proof)]
#[cfg_attr(kani, kani::unwind(7))]
pub fn h_c02_multi_aba() {
    let init = [sym::u8(), sym::u8(), sym::u8(), sym::u8()];
    let mut reg = reg_abcd(init);
    assert!(matches!(reg.try_get_multiple_mut::<(A, B, A)>(), Err(StateError::MultipleBorrowConflict(_))), "a tuple in which a type repeats is refused");
    assert!(reg.try_get_value::<A>().ok() == Some(init[0]) && reg.try_get_value::<C>().ok() == Some(init[2]), "nothing changed");
    vcover!(true, "reached");
    std::mem::forget(reg);
}
// @h tier=quick bound="tuple type (A, B, B) over a registry holding A,B,C,D; symbolic values" unwind=6 memsafe=1 cost=2
#[cfg_attr(kani, kani::proof)]
#[cfg_attr(kani, kani::unwind(7))]
pub fn h_c02_multi_abb() {
    let init = [sym::u8(), sym::u8(), sym::u8(), sym::u8()];
    let mut reg = reg_abcd(init);
    assert!(matches!(reg.try_get_multiple_mut::<(A, B, B)>(), Err(StateError::MultipleBorrowConflict(_))), "a tuple in which a type repeats is refused");
    assert!(reg.try_get_value::<A>().ok() == Some(init[0]) && reg.try_get_value::<C>().ok() == Some(init[2]), "nothing changed");
    vcover!(true, "reached");
    std::mem::forget(reg);
}
// @h tier=quick bound="tuple type (A, B, C) over a registry holding A,B,C,D; symbolic values" unwind=6 memsafe=1 cost=2
#[cfg_attr(kani, kani::proof)]
#[cfg_attr(kani, kani::unwind(7))]
pub fn h_c02_multi_abc() {
    let init = [sym::u8(), sym::u8(), sym::u8(), sym::u8()];
    let mut reg = reg_abcd(init);
    let v = [sym::u8(), sym::u8(), sym::u8(), sym::u8()];
    match reg.try_get_multiple_mut::<(A, B, C)>() {
        Ok((r0, r1, r2)) => {
            let addrs = [r0 as *mut _ as usize, r1 as *mut _ as usize, r2 as *mut _ as usize];
            assert!(distinct_addrs(&addrs), "distinct types yield references to distinct objects");
            r0.0 = v[0];
            r1.0 = v[1];
            r2.0 = v[2];
        }
        Err(_) => assert!(false, "a tuple of distinct, present types is granted"),
    }
    assert!(reg.try_get_value::<A>().ok() == Some(v[0]), "what was written through the references is read back");
    assert!(reg.try_get_value::<B>().ok() == Some(v[1]), "what was written through the references is read back");
    assert!(reg.try_get_value::<C>().ok() == Some(v[2]), "what was written through the references is read back");
    assert!(reg.try_get_value::<D>().ok() == Some(init[3]), "types outside the tuple are untouched");
    vcover!(true, "reached");
    std::mem::forget(reg);
}
// @h tier=quick bound="tuple type (B, B, A) over a registry holding A,B,C,D; symbolic values" unwind=6 memsafe=1 cost=2
#[cfg_attr(kani, kani::proof)]
#[cfg_attr(kani, kani::unwind(7))]
pub fn h_c02_multi_bba() {
    let init = [sym::u8(), sym::u8(), sym::u8(), sym::u8()];
    let mut reg = reg_abcd(init);
    assert!(matches!(reg.try_get_multiple_mut::<(B, B, A)>(), Err(StateError::MultipleBorrowConflict(_))), "a tuple in which a type repeats is refused");
    assert!(reg.try_get_value::<A>().ok() == Some(init[0]) && reg.try_get_value::<C>().ok() == Some(init[2]), "nothing changed");
    vcover!(true, "reached");
    std::mem::forget(reg);
}
// @h tier=quick bound="tuple type (B, C, A) over a registry holding A,B,C,D; symbolic values" unwind=6 memsafe=1 cost=2
#[cfg_attr(kani, kani::proof)]
#[cfg_attr(kani, kani::unwind(7))]
pub fn h_c02_multi_bca() {
    let init = [sym::u8(), sym::u8(), sym::u8(), sym::u8()];
    let mut reg = reg_abcd(init);
    let v = [sym::u8(), sym::u8(), sym::u8(), sym::u8()];
    match reg.try_get_multiple_mut::<(B, C, A)>() {
        Ok((r0, r1, r2)) => {
            let addrs = [r0 as *mut _ as usize, r1 as *mut _ as usize, r2 as *mut _ as usize];
            assert!(distinct_addrs(&addrs), "distinct types yield references to distinct objects");
            r0.0 = v[0];
            r1.0 = v[1];
            r2.0 = v[2];
        }
        Err(_) => assert!(false, "a tuple of distinct, present types is granted"),
    }
    assert!(reg.try_get_value::<B>().ok() == Some(v[0]), "what was written through the references is read back");
    assert!(reg.try_get_value::<C>().ok() == Some(v[1]), "what was written through the references is read back");
    assert!(reg.try_get_value::<A>().ok() == Some(v[2]), "what was written through the references is read back");
    assert!(reg.try_get_value::<D>().ok() == Some(init[3]), "types outside the tuple are untouched");
    vcover!(true, "reached");
    std::mem::forget(reg);
}
// @h tier=quick bound="tuple type (C, A, B) over a registry holding A,B,C,D; symbolic values" unwind=6 memsafe=1 cost=2
#[cfg_attr(kani, kani::proof)]
#[cfg_attr(kani, kani::unwind(7))]
pub fn h_c02_multi_cab() {
    let init = [sym::u8(), sym::u8(), sym::u8(), sym::u8()];
    let mut reg = reg_abcd(init);
    let v = [sym::u8(), sym::u8(), sym::u8(), sym::u8()];
    match reg.try_get_multiple_mut::<(C, A, B)>() {
        Ok((r0, r1, r2)) => {
            let addrs = [r0 as *mut _ as usize, r1 as *mut _ as usize, r2 as *mut _ as usize];
            assert!(distinct_addrs(&addrs), "distinct types yield references to distinct objects");
            r0.0 = v[0];
            r1.0 = v[1];
            r2.0 = v[2];
        }
        Err(_) => assert!(false, "a tuple of distinct, present types is granted"),
    }
    assert!(reg.try_get_value::<C>().ok() == Some(v[0]), "what was written through the references is read back");
    assert!(reg.try_get_value::<A>().ok() == Some(v[1]), "what was written through the references is read back");
    assert!(reg.try_get_value::<B>().ok() == Some(v[2]), "what was written through the references is read back");
    assert!(reg.try_get_value::<D>().ok() == Some(init[3]), "types outside the tuple are untouched");
    vcover!(true, "reached");
    std::mem::forget(reg);
}
// @h tier=quick bound="tuple type (C, B, C) over a registry holding A,B,C,D; symbolic values" unwind=6 memsafe=1 cost=2
#[cfg_attr(kani, kani::proof)]
#[cfg_attr(kani, kani::unwind(7))]
pub fn h_c02_multi_cbc() {
    let init = [sym::u8(), sym::u8(), sym::u8(), sym::u8()];
    let mut reg = reg_abcd(init);
    assert!(matches!(reg.try_get_multiple_mut::<(C, B, C)>(), Err(StateError::MultipleBorrowConflict(_))), "a tuple in which a type repeats is refused");
    assert!(reg.try_get_value::<A>().ok() == Some(init[0]) && reg.try_get_value::<C>().ok() == Some(init[2]), "nothing changed");
    vcover!(true, "reached");
    std::mem::forget(reg);
}
// @h tier=thorough bound="tuple type (A, A, C) over a registry holding A,B,C,D; symbolic values" unwind=6 memsafe=1 cost=2
#[cfg_attr(kani, kani::proof)]
#[cfg_attr(kani, kani::unwind(7))]
pub fn h_c02_multi_aac() {
    let init = [sym::u8(), sym::u8(), sym::u8(), sym::u8()];
    let mut reg = reg_abcd(init);
    assert!(matches!(reg.try_get_multiple_mut::<(A, A, C)>(), Err(StateError::MultipleBorrowConflict(_))), "a tuple in which a type repeats is refused");
    assert!(reg.try_get_value::<A>().ok() == Some(init[0]) && reg.try_get_value::<C>().ok() == Some(init[2]), "nothing changed");
    vcover!(true, "reached");
    std::mem::forget(reg);
}
// @h tier=thorough bound="tuple type (A, C, A) over a registry holding A,B,C,D; symbolic values" unwind=6 memsafe=1 cost=2
#[cfg_attr(kani, kani::proof)]
#[cfg_attr(kani, kani::unwind(7))]
pub fn h_c02_multi_aca() {
    let init = [sym::u8(), sym::u8(), sym::u8(), sym::u8()];
    let mut reg = reg_abcd(init);
    assert!(matches!(reg.try_get_multiple_mut::<(A, C, A)>(), Err(StateError::MultipleBorrowConflict(_))), "a tuple in which a type repeats is refused");
    assert!(reg.try_get_value::<A>().ok() == Some(init[0]) && reg.try_get_value::<C>().ok() == Some(init[2]), "nothing changed");
    vcover!(true, "reached");
    std::mem::forget(reg);
}
// @h tier=thorough bound="tuple type (A, C, B) over a registry holding A,B,C,D; symbolic values" unwind=6 memsafe=1 cost=2
#[cfg_attr(kani, kani::proof)]
#[cfg_attr(kani, kani::unwind(7))]
pub fn h_c02_multi_acb() {
    let init = [sym::u8(), sym::u8(), sym::u8(), sym::u8()];
    let mut reg = reg_abcd(init);
    let v = [sym::u8(), sym::u8(), sym::u8(), sym::u8()];
    match reg.try_get_multiple_mut::<(A, C, B)>() {
        Ok((r0, r1, r2)) => {
            let addrs = [r0 as *mut _ as usize, r1 as *mut _ as usize, r2 as *mut _ as usize];
            assert!(distinct_addrs(&addrs), "distinct types yield references to distinct objects");
            r0.0 = v[0];
            r1.0 = v[1];
            r2.0 = v[2];
        }
        Err(_) => assert!(false, "a tuple of distinct, present types is granted"),
    }
    assert!(reg.try_get_value::<A>().ok() == Some(v[0]), "what was written through the references is read back");
    assert!(reg.try_get_value::<C>().ok() == Some(v[1]), "what was written through the references is read back");
    assert!(reg.try_get_value::<B>().ok() == Some(v[2]), "what was written through the references is read back");
    assert!(reg.try_get_value::<D>().ok() == Some(init[3]), "types outside the tuple are untouched");
    vcover!(true, "reached");
    std::mem::forget(reg);
}
// @h tier=thorough bound="tuple type (A, C, C) over a registry holding A,B,C,D; symbolic values" unwind=6 memsafe=1 cost=2
#[cfg_attr(kani, kani::proof)]
#[cfg_attr(kani, kani::unwind(7))]
pub fn h_c02_multi_acc() {
    let init = [sym::u8(), sym::u8(), sym::u8(), sym::u8()];
    let mut reg = reg_abcd(init);
    assert!(matches!(reg.try_get_multiple_mut::<(A, C, C)>(), Err(StateError::MultipleBorrowConflict(_))), "a tuple in which a type repeats is refused");
    assert!(reg.try_get_value::<A>().ok() == Some(init[0]) && reg.try_get_value::<C>().ok() == Some(init[2]), "nothing changed");
    vcover!(true, "reached");
    std::mem::forget(reg);
}
// @h tier=thorough bound="tuple type (B, A, A) over a registry holding A,B,C,D; symbolic values" unwind=6 memsafe=1 cost=2
#[cfg_attr(kani, kani::proof)]
#[cfg_attr(kani, kani::unwind(7))]
pub fn h_c02_multi_baa() {
    let init = [sym::u8(), sym::u8(), sym::u8(), sym::u8()];
    let mut reg = reg_abcd(init);
    assert!(matches!(reg.try_get_multiple_mut::<(B, A, A)>(), Err(StateError::MultipleBorrowConflict(_))), "a tuple in which a type repeats is refused");
    assert!(reg.try_get_value::<A>().ok() == Some(init[0]) && reg.try_get_value::<C>().ok() == Some(init[2]), "nothing changed");
    vcover!(true, "reached");
    std::mem::forget(reg);
}
// @h tier=thorough bound="tuple type (B, A, B) over a registry holding A,B,C,D; symbolic values" unwind=6 memsafe=1 cost=2
#[cfg_attr(kani, kani::proof)]
#[cfg_attr(kani, kani::unwind(7))]
pub fn h_c02_multi_bab() {
    let init = [sym::u8(), sym::u8(), sym::u8(), sym::u8()];
    let mut reg = reg_abcd(init);
    assert!(matches!(reg.try_get_multiple_mut::<(B, A, B)>(), Err(StateError::MultipleBorrowConflict(_))), "a tuple in which a type repeats is refused");
    assert!(reg.try_get_value::<A>().ok() == Some(init[0]) && reg.try_get_value::<C>().ok() == Some(init[2]), "nothing changed");
    vcover!(true, "reached");
    std::mem::forget(reg);
}
// @h tier=thorough bound="tuple type (B, A, C) over a registry holding A,B,C,D; symbolic values" unwind=6 memsafe=1 cost=2
#[cfg_attr(kani, kani::proof)]
#[cfg_attr(kani, kani::unwind(7))]
pub fn h_c02_multi_bac() {
    let init = [sym::u8(), sym::u8(), sym::u8(), sym::u8()];
    let mut reg = reg_abcd(init);
    let v = [sym::u8(), sym::u8(), sym::u8(), sym::u8()];
    match reg.try_get_multiple_mut::<(B, A, C)>() {
        Ok((r0, r1, r2)) => {
            let addrs = [r0 as *mut _ as usize, r1 as *mut _ as usize, r2 as *mut _ as usize];
            assert!(distinct_addrs(&addrs), "distinct types yield references to distinct objects");
            r0.0 = v[0];
            r1.0 = v[1];
            r2.0 = v[2];
        }
        Err(_) => assert!(false, "a tuple of distinct, present types is granted"),
    }
    assert!(reg.try_get_value::<B>().ok() == Some(v[0]), "what was written through the references is read back");
    assert!(reg.try_get_value::<A>().ok() == Some(v[1]), "what was written through the references is read back");
    assert!(reg.try_get_value::<C>().ok() == Some(v[2]), "what was written through the references is read back");
    assert!(reg.try_get_value::<D>().ok() == Some(init[3]), "types outside the tuple are untouched");
    vcover!(true, "reached");
    std::mem::forget(reg);
}
// @h tier=thorough bound="tuple type (B, B, B) over a registry holding A,B,C,D; symbolic values" unwind=6 memsafe=1 cost=2
#[cfg_attr(kani, kani::proof)]
#[cfg_attr(kani, kani::unwind(7))]
pub fn h_c02_multi_bbb() {
    let init = [sym::u8(), sym::u8(), sym::u8(), sym::u8()];
    let mut reg = reg_abcd(init);
    assert!(matches!(reg.try_get_multiple_mut::<(B, B, B)>(), Err(StateError::MultipleBorrowConflict(_))), "a tuple in which a type repeats is refused");
    assert!(reg.try_get_value::<A>().ok() == Some(init[0]) && reg.try_get_value::<C>().ok() == Some(init[2]), "nothing changed");
    vcover!(true, "reached");
    std::mem::forget(reg);
}
// @h tier=thorough bound="tuple type (B, B, C) over a registry holding A,B,C,D; symbolic values" unwind=6 memsafe=1 cost=2
#[cfg_attr(kani, kani::proof)]
#[cfg_attr(kani, kani::unwind(7))]
pub fn h_c02_multi_bbc() {
    let init = [sym::u8(), sym::u8(), sym::u8(), sym::u8()];
    let mut reg = reg_abcd(init);
    assert!(matches!(reg.try_get_multiple_mut::<(B, B, C)>(), Err(StateError::MultipleBorrowConflict(_))), "a tuple in which a type repeats is refused");
    assert!(reg.try_get_value::<A>().ok() == Some(init[0]) && reg.try_get_value::<C>().ok() == Some(init[2]), "nothing changed");
    vcover!(true, "reached");
    std::mem::forget(reg);
}
// @h tier=thorough bound="tuple type (B, C, B) over a registry holding A,B,C,D; symbolic values" unwind=6 memsafe=1 cost=2
#[cfg_attr(kani, kani::proof)]
#[cfg_attr(kani, kani::unwind(7))]
pub fn h_c02_multi_bcb() {
    let init = [sym::u8(), sym::u8(), sym::u8(), sym::u8()];
    let mut reg = reg_abcd(init);
    assert!(matches!(reg.try_get_multiple_mut::<(B, C, B)>(), Err(StateError::MultipleBorrowConflict(_))), "a tuple in which a type repeats is refused");
    assert!(reg.try_get_value::<A>().ok() == Some(init[0]) && reg.try_get_value::<C>().ok() == Some(init[2]), "nothing changed");
    vcover!(true, "reached");
    std::mem::forget(reg);
}
// @h tier=thorough bound="tuple type (B, C, C) over a registry holding A,B,C,D; symbolic values" unwind=6 memsafe=1 cost=2
#[cfg_attr(kani, kani::proof)]
#[cfg_attr(kani, kani::unwind(7))]
pub fn h_c02_multi_bcc() {
    let init = [sym::u8(), sym::u8(), sym::u8(), sym::u8()];
    let mut reg = reg_abcd(init);
    assert!(matches!(reg.try_get_multiple_mut::<(B, C, C)>(), Err(StateError::MultipleBorrowConflict(_))), "a tuple in which a type repeats is refused");
    assert!(reg.try_get_value::<A>().ok() == Some(init[0]) && reg.try_get_value::<C>().ok() == Some(init[2]), "nothing changed");
    vcover!(true, "reached");
    std::mem::forget(reg);
}
// @h tier=thorough bound="tuple type (C, A, A) over a registry holding A,B,C,D; symbolic values" unwind=6 memsafe=1 cost=2
#[cfg_attr(kani, kani::proof)]
#[cfg_attr(kani, kani::unwind(7))]
pub fn h_c02_multi_caa() {
    let init = [sym::u8(), sym::u8(), sym::u8(), sym::u8()];
    let mut reg = reg_abcd(init);
    assert!(matches!(reg.try_get_multiple_mut::<(C, A, A)>(), Err(StateError::MultipleBorrowConflict(_))), "a tuple in which a type repeats is refused");
    assert!(reg.try_get_value::<A>().ok() == Some(init[0]) && reg.try_get_value::<C>().ok() == Some(init[2]), "nothing changed");
    vcover!(true, "reached");
    std::mem::forget(reg);
}
// @h tier=thorough bound="tuple type (C, A, C) over a registry holding A,B,C,D; symbolic values" unwind=6 memsafe=1 cost=2
#[cfg_attr(kani, kani::proof)]
#[cfg_attr(kani, kani::unwind(7))]
pub fn h_c02_multi_cac() {
    let init = [sym::u8(), sym::u8(), sym::u8(), sym::u8()];
    let mut reg = reg_abcd(init);
    assert!(matches!(reg.try_get_multiple_mut::<(C, A, C)>(), Err(StateError::MultipleBorrowConflict(_))), "a tuple in which a type repeats is refused");
    assert!(reg.try_get_value::<A>().ok() == Some(init[0]) && reg.try_get_value::<C>().ok() == Some(init[2]), "nothing changed");
    vcover!(true, "reached");
    std::mem::forget(reg);
}
// @h tier=thorough bound="tuple type (C, B, A) over a registry holding A,B,C,D; symbolic values" unwind=6 memsafe=1 cost=2
#[cfg_attr(kani, kani::proof)]
#[cfg_attr(kani, kani::unwind(7))]
pub fn h_c02_multi_cba() {
    let init = [sym::u8(), sym::u8(), sym::u8(), sym::u8()];
    let mut reg = reg_abcd(init);
    let v = [sym::u8(), sym::u8(), sym::u8(), sym::u8()];
    match reg.try_get_multiple_mut::<(C, B, A)>() {
        Ok((r0, r1, r2)) => {
            let addrs = [r0 as *mut _ as usize, r1 as *mut _ as usize, r2 as *mut _ as usize];
            assert!(distinct_addrs(&addrs), "distinct types yield references to distinct objects");
            r0.0 = v[0];
            r1.0 = v[1];
            r2.0 = v[2];
        }
        Err(_) => assert!(false, "a tuple of distinct, present types is granted"),
    }
    assert!(reg.try_get_value::<C>().ok() == Some(v[0]), "what was written through the references is read back");
    assert!(reg.try_get_value::<B>().ok() == Some(v[1]), "what was written through the references is read back");
    assert!(reg.try_get_value::<A>().ok() == Some(v[2]), "what was written through the references is read back");
    assert!(reg.try_get_value::<D>().ok() == Some(init[3]), "types outside the tuple are untouched");
    vcover!(true, "reached");
    std::mem::forget(reg);
}
// @h tier=thorough bound="tuple type (C, B, B) over a registry holding A,B,C,D; symbolic values" unwind=6 memsafe=1 cost=2
#[cfg_attr(kani, kani::proof)]
#[cfg_attr(kani, kani::unwind(7))]
pub fn h_c02_multi_cbb() {
    let init = [sym::u8(), sym::u8(), sym::u8(), sym::u8()];
    let mut reg = reg_abcd(init);
    assert!(matches!(reg.try_get_multiple_mut::<(C, B, B)>(), Err(StateError::MultipleBorrowConflict(_))), "a tuple in which a type repeats is refused");
    assert!(reg.try_get_value::<A>().ok() == Some(init[0]) && reg.try_get_value::<C>().ok() == Some(init[2]), "nothing changed");
    vcover!(true, "reached");
    std::mem::forget(reg);
}
// @h tier=thorough bound="tuple type (C, C, A) over a registry holding A,B,C,D; symbolic values" unwind=6 memsafe=1 cost=2
#[cfg_attr(kani, kani::proof)]
#[cfg_attr(kani, kani::unwind(7))]
pub fn h_c02_multi_cca() {
    let init = [sym::u8(), sym::u8(), sym::u8(), sym::u8()];
    let mut reg = reg_abcd(init);
    assert!(matches!(reg.try_get_multiple_mut::<(C, C, A)>(), Err(StateError::MultipleBorrowConflict(_))), "a tuple in which a type repeats is refused");
    assert!(reg.try_get_value::<A>().ok() == Some(init[0]) && reg.try_get_value::<C>().ok() == Some(init[2]), "nothing changed");
    vcover!(true, "reached");
    std::mem::forget(reg);
}
// @h tier=thorough bound="tuple type (C, C, B) over a registry holding A,B,C,D; symbolic values" unwind=6 memsafe=1 cost=2
#[cfg_attr(kani, kani::proof)]
#[cfg_attr(kani, kani::unwind(7))]
pub fn h_c02_multi_ccb() {
    let init = [sym::u8(), sym::u8(), sym::u8(), sym::u8()];
    let mut reg = reg_abcd(init);
    assert!(matches!(reg.try_get_multiple_mut::<(C, C, B)>(), Err(StateError::MultipleBorrowConflict(_))), "a tuple in which a type repeats is refused");
    assert!(reg.try_get_value::<A>().ok() == Some(init[0]) && reg.try_get_value::<C>().ok() == Some(init[2]), "nothing changed");
    vcover!(true, "reached");
    std::mem::forget(reg);
}
// @h tier=thorough bound="tuple type (C, C, C) over a registry holding A,B,C,D; symbolic values" unwind=6 memsafe=1 cost=2
#[cfg_attr(kani, kani::proof)]
#[cfg_attr(kani, kani::unwind(7))]
pub fn h_c02_multi_ccc() {
    let init = [sym::u8(), sym::u8(), sym::u8(), sym::u8()];
    let mut reg = reg_abcd(init);
    assert!(matches!(reg.try_get_multiple_mut::<(C, C, C)>(), Err(StateError::MultipleBorrowConflict(_))), "a tuple in which a type repeats is refused");
    assert!(reg.try_get_value::<A>().ok() == Some(init[0]) && reg.try_get_value::<C>().ok() == Some(init[2]), "nothing changed");
    vcover!(true, "reached");
    std::mem::forget(reg);
}
// @h tier=quick bound="tuple type (A, A, A, A) over a registry holding A,B,C,D; symbolic values" unwind=7 memsafe=1 cost=2
#[cfg_attr(kani, kani::proof)]
#[cfg_attr(kani, kani::unwind(7))]
pub fn h_c02_multi_aaaa() {
    let init = [sym::u8(), sym::u8(), sym::u8(), sym::u8()];
    let mut reg = reg_abcd(init);
    assert!(matches!(reg.try_get_multiple_mut::<(A, A, A, A)>(), Err(StateError::MultipleBorrowConflict(_))), "a tuple in which a type repeats is refused");
    assert!(reg.try_get_value::<A>().ok() == Some(init[0]) && reg.try_get_value::<C>().ok() == Some(init[2]), "nothing changed");
    vcover!(true, "reached");
    std::mem::forget(reg);
}
// @h tier=quick bound="tuple type (A, A, A, B) over a registry holding A,B,C,D; symbolic values" unwind=7 memsafe=1 cost=2
#[cfg_attr(kani, kani::proof)]
#[cfg_attr(kani, kani::unwind(7))]
pub fn h_c02_multi_aaab() {
    let init = [sym::u8(), sym::u8(), sym::u8(), sym::u8()];
    let mut reg = reg_abcd(init);
    assert!(matches!(reg.try_get_multiple_mut::<(A, A, A, B)>(), Err(StateError::MultipleBorrowConflict(_))), "a tuple in which a type repeats is refused");
    assert!(reg.try_get_value::<A>().ok() == Some(init[0]) && reg.try_get_value::<C>().ok() == Some(init[2]), "nothing changed");
    vcover!(true, "reached");
    std::mem::forget(reg);
}
// @h tier=quick bound="tuple type (A, A, B, A) over a registry holding A,B,C,D; symbolic values" unwind=7 memsafe=1 cost=2
#[cfg_attr(kani, kani::proof)]
#[cfg_attr(kani, kani::unwind(7))]
pub fn h_c02_multi_aaba() {
    let init = [sym::u8(), sym::u8(), sym::u8(), sym::u8()];
    let mut reg = reg_abcd(init);
    assert!(matches!(reg.try_get_multiple_mut::<(A, A, B, A)>(), Err(StateError::MultipleBorrowConflict(_))), "a tuple in which a type repeats is refused");
    assert!(reg.try_get_value::<A>().ok() == Some(init[0]) && reg.try_get_value::<C>().ok() == Some(init[2]), "nothing changed");
    vcover!(true, "reached");
    std::mem::forget(reg);
}
// @h tier=quick bound="tuple type (A, A, B, B) over a registry holding A,B,C,D; symbolic values" unwind=7 memsafe=1 cost=2
#[cfg_attr(kani, kani::proof)]
#[cfg_attr(kani, kani::unwind(7))]
pub fn h_c02_multi_aabb() {
    let init = [sym::u8(), sym::u8(), sym::u8(), sym::u8()];
    let mut reg = reg_abcd(init);
    assert!(matches!(reg.try_get_multiple_mut::<(A, A, B, B)>(), Err(StateError::MultipleBorrowConflict(_))), "a tuple in which a type repeats is refused");
    assert!(reg.try_get_value::<A>().ok() == Some(init[0]) && reg.try_get_value::<C>().ok() == Some(init[2]), "nothing changed");
    vcover!(true, "reached");
    std::mem::forget(reg);
}
// @h tier=quick bound="tuple type (A, A, B, C) over a registry holding A,B,C,D; symbolic values" unwind=7 memsafe=1 cost=2
#[cfg_attr(kani, kani::proof)]
#[cfg_attr(kani, kani::unwind(7))]
pub fn h_c02_multi_aabc() {
    let init = [sym::u8(), sym::u8(), sym::u8(), sym::u8()];
    let mut reg = reg_abcd(init);
    assert!(matches!(reg.try_get_multiple_mut::<(A, A, B, C)>(), Err(StateError::MultipleBorrowConflict(_))), "a tuple in which a type repeats is refused");
    assert!(reg.try_get_value::<A>().ok() == Some(init[0]) && reg.try_get_value::<C>().ok() == Some(init[2]), "nothing changed");
    vcover!(true, "reached");
    std::mem::forget(reg);
}
// @h tier=quick bound="tuple type (A, B, A, A) over a registry holding A,B,C,D; symbolic values" unwind=7 memsafe=1 cost=2
#[cfg_attr(kani, kani::proof)]
#[cfg_attr(kani, kani::unwind(7))]
pub fn h_c02_multi_abaa() {
    let init = [sym::u8(), sym::u8(), sym::u8(), sym::u8()];
    let mut reg = reg_abcd(init);
    assert!(matches!(reg.try_get_multiple_mut::<(A, B, A, A)>(), Err(StateError::MultipleBorrowConflict(_))), "a tuple in which a type repeats is refused");
    assert!(reg.try_get_value::<A>().ok() == Some(init[0]) && reg.try_get_value::<C>().ok() == Some(init[2]), "nothing changed");
    vcover!(true, "reached");
    std::mem::forget(reg);
}
// @h tier=quick bound="tuple type (A, B, A, B) over a registry holding A,B,C,D; symbolic values" unwind=7 memsafe=1 cost=2
#[cfg_attr(kani, kani::proof)]
#[cfg_attr(kani, kani::unwind(7))]
pub fn h_c02_multi_abab() {
    let init = [sym::u8(), sym::u8(), sym::u8(), sym::u8()];
    let mut reg = reg_abcd(init);
    assert!(matches!(reg.try_get_multiple_mut::<(A, B, A, B)>(), Err(StateError::MultipleBorrowConflict(_))), "a tuple in which a type repeats is refused");
    assert!(reg.try_get_value::<A>().ok() == Some(init[0]) && reg.try_get_value::<C>().ok() == Some(init[2]), "nothing changed");
    vcover!(true, "reached");
    std::mem::forget(reg);
}
// @h tier=quick bound="tuple type (A, B, A, C) over a registry holding A,B,C,D; symbolic values" unwind=7 memsafe=1 cost=2
#[cfg_attr(kani, kani::proof)]
#[cfg_attr(kani, kani::unwind(7))]
pub fn h_c02_multi_abac() {
    let init = [sym::u8(), sym::u8(), sym::u8(), sym::u8()];
    let mut reg = reg_abcd(init);
    assert!(matches!(reg.try_get_multiple_mut::<(A, B, A, C)>(), Err(StateError::MultipleBorrowConflict(_))), "a tuple in which a type repeats is refused");
    assert!(reg.try_get_value::<A>().ok() == Some(init[0]) && reg.try_get_value::<C>().ok() == Some(init[2]), "nothing changed");
    vcover!(true, "reached");
    std::mem::forget(reg);
}
// @h tier=quick bound="tuple type (A, B, B, A) over a registry holding A,B,C,D; symbolic values" unwind=7 memsafe=1 cost=2
#[cfg_attr(kani, kani::proof)]
#[cfg_attr(kani, kani::unwind(7))]
pub fn h_c02_multi_abba() {
    let init = [sym::u8(), sym::u8(), sym::u8(), sym::u8()];
    let mut reg = reg_abcd(init);
    assert!(matches!(reg.try_get_multiple_mut::<(A, B, B, A)>(), Err(StateError::MultipleBorrowConflict(_))), "a tuple in which a type repeats is refused");
    assert!(reg.try_get_value::<A>().ok() == Some(init[0]) && reg.try_get_value::<C>().ok() == Some(init[2]), "nothing changed");
    vcover!(true, "reached");
    std::mem::forget(reg);
}
// @h tier=quick bound="tuple type (A, B, B, B) over a registry holding A,B,C,D; symbolic values" unwind=7 memsafe=1 cost=2
#[cfg_attr(kani, kani::proof)]
#[cfg_attr(kani, kani::unwind(7))]
pub fn h_c02_multi_abbb() {
    let init = [sym::u8(), sym::u8(), sym::u8(), sym::u8()];
    let mut reg = reg_abcd(init);
    assert!(matches!(reg.try_get_multiple_mut::<(A, B, B, B)>(), Err(StateError::MultipleBorrowConflict(_))), "a tuple in which a type repeats is refused");
    assert!(reg.try_get_value::<A>().ok() == Some(init[0]) && reg.try_get_value::<C>().ok() == Some(init[2]), "nothing changed");
    vcover!(true, "reached");
    std::mem::forget(reg);
}
// @h tier=quick bound="tuple type (A, B, B, C) over a registry holding A,B,C,D; symbolic values" unwind=7 memsafe=1 cost=2
#[cfg_attr(kani, kani::proof)]
#[cfg_attr(kani, kani::unwind(7))]
pub fn h_c02_multi_abbc() {
    let init = [sym::u8(), sym::u8(), sym::u8(), sym::u8()];
    let mut reg = reg_abcd(init);
    assert!(matches!(reg.try_get_multiple_mut::<(A, B, B, C)>(), Err(StateError::MultipleBorrowConflict(_))), "a tuple in which a type repeats is refused");
    assert!(reg.try_get_value::<A>().ok() == Some(init[0]) && reg.try_get_value::<C>().ok() == Some(init[2]), "nothing changed");
    vcover!(true, "reached");
    std::mem::forget(reg);
}
// @h tier=quick bound="tuple type (A, B, C, A) over a registry holding A,B,C,D; symbolic values" unwind=7 memsafe=1 cost=2
#[cfg_attr(kani, kani::proof)]
#[cfg_attr(kani, kani::unwind(7))]
pub fn h_c02_multi_abca() {
    let init = [sym::u8(), sym::u8(), sym::u8(), sym::u8()];
    let mut reg = reg_abcd(init);
    assert!(matches!(reg.try_get_multiple_mut::<(A, B, C, A)>(), Err(StateError::MultipleBorrowConflict(_))), "a tuple in which a type repeats is refused");
    assert!(reg.try_get_value::<A>().ok() == Some(init[0]) && reg.try_get_value::<C>().ok() == Some(init[2]), "nothing changed");
    vcover!(true, "reached");
    std::mem::forget(reg);
}
// @h tier=quick bound="tuple type (A, B, C, B) over a registry holding A,B,C,D; symbolic values" unwind=7 memsafe=1 cost=2
#[cfg_attr(kani, kani::proof)]
#[cfg_attr(kani, kani::unwind(7))]
pub fn h_c02_multi_abcb() {
    let init = [sym::u8(), sym::u8(), sym::u8(), sym::u8()];
    let mut reg = reg_abcd(init);
    assert!(matches!(reg.try_get_multiple_mut::<(A, B, C, B)>(), Err(StateError::MultipleBorrowConflict(_))), "a tuple in which a type repeats is refused");
    assert!(reg.try_get_value::<A>().ok() == Some(init[0]) && reg.try_get_value::<C>().ok() == Some(init[2]), "nothing changed");
    vcover!(true, "reached");
    std::mem::forget(reg);
}
// @h tier=quick bound="tuple type (A, B, C, C) over a registry holding A,B,C,D; symbolic values" unwind=7 memsafe=1 cost=2
#[cfg_attr(kani, kani::proof)]
#[cfg_attr(kani, kani::unwind(7))]
pub fn h_c02_multi_abcc() {
    let init = [sym::u8(), sym::u8(), sym::u8(), sym::u8()];
    let mut reg = reg_abcd(init);
    assert!(matches!(reg.try_get_multiple_mut::<(A, B, C, C)>(), Err(StateError::MultipleBorrowConflict(_))), "a tuple in which a type repeats is refused");
    assert!(reg.try_get_value::<A>().ok() == Some(init[0]) && reg.try_get_value::<C>().ok() == Some(init[2]), "nothing changed");
    vcover!(true, "reached");
    std::mem::forget(reg);
}
// @h tier=quick bound="tuple type (A, B, C, D) over a registry holding A,B,C,D; symbolic values" unwind=7 memsafe=1 cost=2
#[cfg_attr(kani, kani::proof)]
#[cfg_attr(kani, kani::unwind(7))]
pub fn h_c02_multi_abcd() {
    let init = [sym::u8(), sym::u8(), sym::u8(), sym::u8()];
    let mut reg = reg_abcd(init);
    let v = [sym::u8(), sym::u8(), sym::u8(), sym::u8()];
    match reg.try_get_multiple_mut::<(A, B, C, D)>() {
        Ok((r0, r1, r2, r3)) => {
            let addrs = [r0 as *mut _ as usize, r1 as *mut _ as usize, r2 as *mut _ as usize, r3 as *mut _ as usize];
            assert!(distinct_addrs(&addrs), "distinct types yield references to distinct objects");
            r0.0 = v[0];
            r1.0 = v[1];
            r2.0 = v[2];
            r3.0 = v[3];
        }
        Err(_) => assert!(false, "a tuple of distinct, present types is granted"),
    }
    assert!(reg.try_get_value::<A>().ok() == Some(v[0]), "what was written through the references is read back");
    assert!(reg.try_get_value::<B>().ok() == Some(v[1]), "what was written through the references is read back");
    assert!(reg.try_get_value::<C>().ok() == Some(v[2]), "what was written through the references is read back");
    assert!(reg.try_get_value::<D>().ok() == Some(v[3]), "what was written through the references is read back");
    vcover!(true, "reached");
    std::mem::forget(reg);
}
// @h tier=quick bound="tuple type (D, C, B, A) over a registry holding A,B,C,D; symbolic values" unwind=7 memsafe=1 cost=2
#[cfg_attr(kani, kani::proof)]
#[cfg_attr(kani, kani::unwind(7))]
pub fn h_c02_multi_dcba() {
    let init = [sym::u8(), sym::u8(), sym::u8(), sym::u8()];
    let mut reg = reg_abcd(init);
    let v = [sym::u8(), sym::u8(), sym::u8(), sym::u8()];
    match reg.try_get_multiple_mut::<(D, C, B, A)>() {
        Ok((r0, r1, r2, r3)) => {
            let addrs = [r0 as *mut _ as usize, r1 as *mut _ as usize, r2 as *mut _ as usize, r3 as *mut _ as usize];
            assert!(distinct_addrs(&addrs), "distinct types yield references to distinct objects");
            r0.0 = v[0];
            r1.0 = v[1];
            r2.0 = v[2];
            r3.0 = v[3];
        }
        Err(_) => assert!(false, "a tuple of distinct, present types is granted"),
    }
    assert!(reg.try_get_value::<D>().ok() == Some(v[0]), "what was written through the references is read back");
    assert!(reg.try_get_value::<C>().ok() == Some(v[1]), "what was written through the references is read back");
    assert!(reg.try_get_value::<B>().ok() == Some(v[2]), "what was written through the references is read back");
    assert!(reg.try_get_value::<A>().ok() == Some(v[3]), "what was written through the references is read back");
    vcover!(true, "reached");
    std::mem::forget(reg);
}
// @h tier=thorough bound="tuple type (A, A, A, C) over a registry holding A,B,C,D; symbolic values" unwind=7 memsafe=1 cost=2
#[cfg_attr(kani, kani::proof)]
#[cfg_attr(kani, kani::unwind(7))]
pub fn h_c02_multi_aaac() {
    let init = [sym::u8(), sym::u8(), sym::u8(), sym::u8()];
    let mut reg = reg_abcd(init);
    assert!(matches!(reg.try_get_multiple_mut::<(A, A, A, C)>(), Err(StateError::MultipleBorrowConflict(_))), "a tuple in which a type repeats is refused");
    assert!(reg.try_get_value::<A>().ok() == Some(init[0]) && reg.try_get_value::<C>().ok() == Some(init[2]), "nothing changed");
    vcover!(true, "reached");
    std::mem::forget(reg);
}
// @h tier=thorough bound="tuple type (A, A, C, A) over a registry holding A,B,C,D; symbolic values" unwind=7 memsafe=1 cost=2
#[cfg_attr(kani, kani::proof)]
#[cfg_attr(kani, kani::unwind(7))]
pub fn h_c02_multi_aaca() {
    let init = [sym::u8(), sym::u8(), sym::u8(), sym::u8()];
    let mut reg = reg_abcd(init);
    assert!(matches!(reg.try_get_multiple_mut::<(A, A, C, A)>(), Err(StateError::MultipleBorrowConflict(_))), "a tuple in which a type repeats is refused");
    assert!(reg.try_get_value::<A>().ok() == Some(init[0]) && reg.try_get_value::<C>().ok() == Some(init[2]), "nothing changed");
    vcover!(true, "reached");
    std::mem::forget(reg);
}
// @h tier=thorough bound="tuple type (A, A, C, B) over a registry holding A,B,C,D; symbolic values" unwind=7 memsafe=1 cost=2
#[cfg_attr(kani, kani::proof)]
#[cfg_attr(kani, kani::unwind(7))]
pub fn h_c02_multi_aacb() {
    let init = [sym::u8(), sym::u8(), sym::u8(), sym::u8()];
    let mut reg = reg_abcd(init);
    assert!(matches!(reg.try_get_multiple_mut::<(A, A, C, B)>(), Err(StateError::MultipleBorrowConflict(_))), "a tuple in which a type repeats is refused");
    assert!(reg.try_get_value::<A>().ok() == Some(init[0]) && reg.try_get_value::<C>().ok() == Some(init[2]), "nothing changed");
    vcover!(true, "reached");
    std::mem::forget(reg);
}
// @h tier=thorough bound="tuple type (A, A, C, C) over a registry holding A,B,C,D; symbolic values" unwind=7 memsafe=1 cost=2
#[cfg_attr(kani, kani::proof)]
#[cfg_attr(kani, kani::unwind(7))]
pub fn h_c02_multi_aacc() {
    let init = [sym::u8(), sym::u8(), sym::u8(), sym::u8()];
    let mut reg = reg_abcd(init);
    assert!(matches!(reg.try_get_multiple_mut::<(A, A, C, C)>(), Err(StateError::MultipleBorrowConflict(_))), "a tuple in which a type repeats is refused");
    assert!(reg.try_get_value::<A>().ok() == Some(init[0]) && reg.try_get_value::<C>().ok() == Some(init[2]), "nothing changed");
    vcover!(true, "reached");
    std::mem::forget(reg);
}
// @h tier=thorough bound="tuple type (A, C, A, A) over a registry holding A,B,C,D; symbolic values" unwind=7 memsafe=1 cost=2
#[cfg_attr(kani, kani::proof)]
#[cfg_attr(kani, kani::unwind(7))]
pub fn h_c02_multi_acaa() {
    let init = [sym::u8(), sym::u8(), sym::u8(), sym::u8()];
    let mut reg = reg_abcd(init);
    assert!(matches!(reg.try_get_multiple_mut::<(A, C, A, A)>(), Err(StateError::MultipleBorrowConflict(_))), "a tuple in which a type repeats is refused");
    assert!(reg.try_get_value::<A>().ok() == Some(init[0]) && reg.try_get_value::<C>().ok() == Some(init[2]), "nothing changed");
    vcover!(true, "reached");
    std::mem::forget(reg);
}
// @h tier=thorough bound="tuple type (A, C, A, B) over a registry holding A,B,C,D; symbolic values" unwind=7 memsafe=1 cost=2
#[cfg_attr(kani, kani::proof)]
#[cfg_attr(kani, kani::unwind(7))]
pub fn h_c02_multi_acab() {
    let init = [sym::u8(), sym::u8(), sym::u8(), sym::u8()];
    let mut reg = reg_abcd(init);
    assert!(matches!(reg.try_get_multiple_mut::<(A, C, A, B)>(), Err(StateError::MultipleBorrowConflict(_))), "a tuple in which a type repeats is refused");
    assert!(reg.try_get_value::<A>().ok() == Some(init[0]) && reg.try_get_value::<C>().ok() == Some(init[2]), "nothing changed");
    vcover!(true, "reached");
    std::mem::forget(reg);
}
// @h tier=thorough bound="tuple type (A, C, A, C) over a registry holding A,B,C,D; symbolic values" unwind=7 memsafe=1 cost=2
#[cfg_attr(kani, kani::proof)]
#[cfg_attr(kani, kani::unwind(7))]
pub fn h_c02_multi_acac() {
    let init = [sym::u8(), sym::u8(), sym::u8(), sym::u8()];
    let mut reg = reg_abcd(init);
    assert!(matches!(reg.try_get_multiple_mut::<(A, C, A, C)>(), Err(StateError::MultipleBorrowConflict(_))), "a tuple in which a type repeats is refused");
    assert!(reg.try_get_value::<A>().ok() == Some(init[0]) && reg.try_get_value::<C>().ok() == Some(init[2]), "nothing changed");
    vcover!(true, "reached");
    std::mem::forget(reg);
}
// @h tier=thorough bound="tuple type (A, C, B, A) over a registry holding A,B,C,D; symbolic values" unwind=7 memsafe=1 cost=2
#[cfg_attr(kani, kani::proof)]
#[cfg_attr(kani, kani::unwind(7))]
pub fn h_c02_multi_acba() {
    let init = [sym::u8(), sym::u8(), sym::u8(), sym::u8()];
    let mut reg = reg_abcd(init);
    assert!(matches!(reg.try_get_multiple_mut::<(A, C, B, A)>(), Err(StateError::MultipleBorrowConflict(_))), "a tuple in which a type repeats is refused");
    assert!(reg.try_get_value::<A>().ok() == Some(init[0]) && reg.try_get_value::<C>().ok() == Some(init[2]), "nothing changed");
    vcover!(true, "reached");
    std::mem::forget(reg);
}
// @h tier=thorough bound="tuple type (A, C, B, B) over a registry holding A,B,C,D; symbolic values" unwind=7 memsafe=1 cost=2
#[cfg_attr(kani, kani::proof)]
#[cfg_attr(kani, kani::unwind(7))]
pub fn h_c02_multi_acbb() {
    let init = [sym::u8(), sym::u8(), sym::u8(), sym::u8()];
    let mut reg = reg_abcd(init);
    assert!(matches!(reg.try_get_multiple_mut::<(A, C, B, B)>(), Err(StateError::MultipleBorrowConflict(_))), "a tuple in which a type repeats is refused");
    assert!(reg.try_get_value::<A>().ok() == Some(init[0]) && reg.try_get_value::<C>().ok() == Some(init[2]), "nothing changed");
    vcover!(true, "reached");
    std::mem::forget(reg);
}
// @h tier=thorough bound="tuple type (A, C, B, C) over a registry holding A,B,C,D; symbolic values" unwind=7 memsafe=1 cost=2
#[cfg_attr(kani, kani::proof)]
#[cfg_attr(kani, kani::unwind(7))]
pub fn h_c02_multi_acbc() {
    let init = [sym::u8(), sym::u8(), sym::u8(), sym::u8()];
    let mut reg = reg_abcd(init);
    assert!(matches!(reg.try_get_multiple_mut::<(A, C, B, C)>(), Err(StateError::MultipleBorrowConflict(_))), "a tuple in which a type repeats is refused");
    assert!(reg.try_get_value::<A>().ok() == Some(init[0]) && reg.try_get_value::<C>().ok() == Some(init[2]), "nothing changed");
    vcover!(true, "reached");
    std::mem::forget(reg);
}
// @h tier=thorough bound="tuple type (A, C, C, A) over a registry holding A,B,C,D; symbolic values" unwind=7 memsafe=1 cost=2
#[cfg_attr(kani, kani::proof)]
#[cfg_attr(kani, kani::unwind(7))]
pub fn h_c02_multi_acca() {
    let init = [sym::u8(), sym::u8(), sym::u8(), sym::u8()];
    let mut reg = reg_abcd(init);
    assert!(matches!(reg.try_get_multiple_mut::<(A, C, C, A)>(), Err(StateError::MultipleBorrowConflict(_))), "a tuple in which a type repeats is refused");
    assert!(reg.try_get_value::<A>().ok() == Some(init[0]) && reg.try_get_value::<C>().ok() == Some(init[2]), "nothing changed");
    vcover!(true, "reached");
    std::mem::forget(reg);
}
// @h tier=thorough bound="tuple type (A, C, C, B) over a registry holding A,B,C,D; symbolic values" unwind=7 memsafe=1 cost=2
#[cfg_attr(kani, kani::proof)]
#[cfg_attr(kani, kani::unwind(7))]
pub fn h_c02_multi_accb() {
    let init = [sym::u8(), sym::u8(), sym::u8(), sym::u8()];
    let mut reg = reg_abcd(init);
    assert!(matches!(reg.try_get_multiple_mut::<(A, C, C, B)>(), Err(StateError::MultipleBorrowConflict(_))), "a tuple in which a type repeats is refused");
    assert!(reg.try_get_value::<A>().ok() == Some(init[0]) && reg.try_get_value::<C>().ok() == Some(init[2]), "nothing changed");
    vcover!(true, "reached");
    std::mem::forget(reg);
}
// @h tier=thorough bound="tuple type (A, C, C, C) over a registry holding A,B,C,D; symbolic values" unwind=7 memsafe=1 cost=2
#[cfg_attr(kani, kani::proof)]
#[cfg_attr(kani, kani::unwind(7))]
pub fn h_c02_multi_accc() {
    let init = [sym::u8(), sym::u8(), sym::u8(), sym::u8()];
    let mut reg = reg_abcd(init);
    assert!(matches!(reg.try_get_multiple_mut::<(A, C, C, C)>(), Err(StateError::MultipleBorrowConflict(_))), "a tuple in which a type repeats is refused");
    assert!(reg.try_get_value::<A>().ok() == Some(init[0]) && reg.try_get_value::<C>().ok() == Some(init[2]), "nothing changed");
    vcover!(true, "reached");
    std::mem::forget(reg);
}
// @h tier=thorough bound="tuple type (B, A, A, A) over a registry holding A,B,C,D; symbolic values" unwind=7 memsafe=1 cost=2
#[cfg_attr(kani, kani::proof)]
#[cfg_attr(kani, kani::unwind(7))]
pub fn h_c02_multi_baaa() {
    let init = [sym::u8(), sym::u8(), sym::u8(), sym::u8()];
    let mut reg = reg_abcd(init);
    assert!(matches!(reg.try_get_multiple_mut::<(B, A, A, A)>(), Err(StateError::MultipleBorrowConflict(_))), "a tuple in which a type repeats is refused");
    assert!(reg.try_get_value::<A>().ok() == Some(init[0]) && reg.try_get_value::<C>().ok() == Some(init[2]), "nothing changed");
    vcover!(true, "reached");
    std::mem::forget(reg);
}
// @h tier=thorough bound="tuple type (B, A, A, B) over a registry holding A,B,C,D; symbolic values" unwind=7 memsafe=1 cost=2
#[cfg_attr(kani, kani::proof)]
#[cfg_attr(kani, kani::unwind(7))]
pub fn h_c02_multi_baab() {
    let init = [sym::u8(), sym::u8(), sym::u8(), sym::u8()];
    let mut reg = reg_abcd(init);
    assert!(matches!(reg.try_get_multiple_mut::<(B, A, A, B)>(), Err(StateError::MultipleBorrowConflict(_))), "a tuple in which a type repeats is refused");
    assert!(reg.try_get_value::<A>().ok() == Some(init[0]) && reg.try_get_value::<C>().ok() == Some(init[2]), "nothing changed");
    vcover!(true, "reached");
    std::mem::forget(reg);
}
// @h tier=thorough bound="tuple type (B, A, A, C) over a registry holding A,B,C,D; symbolic values" unwind=7 memsafe=1 cost=2
#[cfg_attr(kani, kani::proof)]
#[cfg_attr(kani, kani::unwind(7))]
pub fn h_c02_multi_baac() {
    let init = [sym::u8(), sym::u8(), sym::u8(), sym::u8()];
    let mut reg = reg_abcd(init);
    assert!(matches!(reg.try_get_multiple_mut::<(B, A, A, C)>(), Err(StateError::MultipleBorrowConflict(_))), "a tuple in which a type repeats is refused");
    assert!(reg.try_get_value::<A>().ok() == Some(init[0]) && reg.try_get_value::<C>().ok() == Some(init[2]), "nothing changed");
    vcover!(true, "reached");
    std::mem::forget(reg);
}
// @h tier=thorough bound="tuple type (B, A, B, A) over a registry holding A,B,C,D; symbolic values" unwind=7 memsafe=1 cost=2
#[cfg_attr(kani, kani::proof)]
#[cfg_attr(kani, kani::unwind(7))]
pub fn h_c02_multi_baba() {
    let init = [sym::u8(), sym::u8(), sym::u8(), sym::u8()];
    let mut reg = reg_abcd(init);
    assert!(matches!(reg.try_get_multiple_mut::<(B, A, B, A)>(), Err(StateError::MultipleBorrowConflict(_))), "a tuple in which a type repeats is refused");
    assert!(reg.try_get_value::<A>().ok() == Some(init[0]) && reg.try_get_value::<C>().ok() == Some(init[2]), "nothing changed");
    vcover!(true, "reached");
    std::mem::forget(reg);
}
// @h tier=thorough bound="tuple type (B, A, B, B) over a registry holding A,B,C,D; symbolic values" unwind=7 memsafe=1 cost=2
#[cfg_attr(kani, kani::proof)]
#[cfg_attr(kani, kani::unwind(7))]
pub fn h_c02_multi_babb() {
    let init = [sym::u8(), sym::u8(), sym::u8(), sym::u8()];
    let mut reg = reg_abcd(init);
    assert!(matches!(reg.try_get_multiple_mut::<(B, A, B, B)>(), Err(StateError::MultipleBorrowConflict(_))), "a tuple in which a type repeats is refused");
    assert!(reg.try_get_value::<A>().ok() == Some(init[0]) && reg.try_get_value::<C>().ok() == Some(init[2]), "nothing changed");
    vcover!(true, "reached");
    std::mem::forget(reg);
}
// @h tier=thorough bound="tuple type (B, A, B, C) over a registry holding A,B,C,D; symbolic values" unwind=7 memsafe=1 cost=2
#[cfg_attr(kani, kani::proof)]
#[cfg_attr(kani, kani::unwind(7))]
pub fn h_c02_multi_babc() {
    let init = [sym::u8(), sym::u8(), sym::u8(), sym::u8()];
    let mut reg = reg_abcd(init);
    assert!(matches!(reg.try_get_multiple_mut::<(B, A, B, C)>(), Err(StateError::MultipleBorrowConflict(_))), "a tuple in which a type repeats is refused");
    assert!(reg.try_get_value::<A>().ok() == Some(init[0]) && reg.try_get_value::<C>().ok() == Some(init[2]), "nothing changed");
    vcover!(true, "reached");
    std::mem::forget(reg);
}
// @h tier=thorough bound="tuple type (B, A, C, A) over a registry holding A,B,C,D; symbolic values" unwind=7 memsafe=1 cost=2
#[cfg_attr(kani, kani::proof)]
#[cfg_attr(kani, kani::unwind(7))]
pub fn h_c02_multi_baca() {
    let init = [sym::u8(), sym::u8(), sym::u8(), sym::u8()];
    let mut reg = reg_abcd(init);
    assert!(matches!(reg.try_get_multiple_mut::<(B, A, C, A)>(), Err(StateError::MultipleBorrowConflict(_))), "a tuple in which a type repeats is refused");
    assert!(reg.try_get_value::<A>().ok() == Some(init[0]) && reg.try_get_value::<C>().ok() == Some(init[2]), "nothing changed");
    vcover!(true, "reached");
    std::mem::forget(reg);
}
// @h tier=thorough bound="tuple type (B, A, C, B) over a registry holding A,B,C,D; symbolic values" unwind=7 memsafe=1 cost=2
#[cfg_attr(kani, kani::proof)]
#[cfg_attr(kani, kani::unwind(7))]
pub fn h_c02_multi_bacb() {
    let init = [sym::u8(), sym::u8(), sym::u8(), sym::u8()];
    let mut reg = reg_abcd(init);
    assert!(matches!(reg.try_get_multiple_mut::<(B, A, C, B)>(), Err(StateError::MultipleBorrowConflict(_))), "a tuple in which a type repeats is refused");
    assert!(reg.try_get_value::<A>().ok() == Some(init[0]) && reg.try_get_value::<C>().ok() == Some(init[2]), "nothing changed");
    vcover!(true, "reached");
    std::mem::forget(reg);
}
// @h tier=thorough bound="tuple type (B, A, C, C) over a registry holding A,B,C,D; symbolic values" unwind=7 memsafe=1 cost=2
#[cfg_attr(kani, kani::proof)]
#[cfg_attr(kani, kani::unwind(7))]
pub fn h_c02_multi_bacc() {
    let init = [sym::u8(), sym::u8(), sym::u8(), sym::u8()];
    let mut reg = reg_abcd(init);
    assert!(matches!(reg.try_get_multiple_mut::<(B, A, C, C)>(), Err(StateError::MultipleBorrowConflict(_))), "a tuple in which a type repeats is refused");
    assert!(reg.try_get_value::<A>().ok() == Some(init[0]) && reg.try_get_value::<C>().ok() == Some(init[2]), "nothing changed");
    vcover!(true, "reached");
    std::mem::forget(reg);
}
// @h tier=thorough bound="tuple type (B, B, A, A) over a registry holding A,B,C,D; symbolic values" unwind=7 memsafe=1 cost=2
#[cfg_attr(kani, kani::proof)]
#[cfg_attr(kani, kani::unwind(7))]
pub fn h_c02_multi_bbaa() {
    let init = [sym::u8(), sym::u8(), sym::u8(), sym::u8()];
    let mut reg = reg_abcd(init);
    assert!(matches!(reg.try_get_multiple_mut::<(B, B, A, A)>(), Err(StateError::MultipleBorrowConflict(_))), "a tuple in which a type repeats is refused");
    assert!(reg.try_get_value::<A>().ok() == Some(init[0]) && reg.try_get_value::<C>().ok() == Some(init[2]), "nothing changed");
    vcover!(true, "reached");
    std::mem::forget(reg);
}
// @h tier=thorough bound="tuple type (B, B, A, B) over a registry holding A,B,C,D; symbolic values" unwind=7 memsafe=1 cost=2
#[cfg_attr(kani, kani::proof)]
#[cfg_attr(kani, kani::unwind(7))]
pub fn h_c02_multi_bbab() {
    let init = [sym::u8(), sym::u8(), sym::u8(), sym::u8()];
    let mut reg = reg_abcd(init);
    assert!(matches!(reg.try_get_multiple_mut::<(B, B, A, B)>(), Err(StateError::MultipleBorrowConflict(_))), "a tuple in which a type repeats is refused");
    assert!(reg.try_get_value::<A>().ok() == Some(init[0]) && reg.try_get_value::<C>().ok() == Some(init[2]), "nothing changed");
    vcover!(true, "reached");
    std::mem::forget(reg);
}
// @h tier=thorough bound="tuple type (B, B, A, C) over a registry holding A,B,C,D; symbolic values" unwind=7 memsafe=1 cost=2
#[cfg_attr(kani, kani::proof)]
#[cfg_attr(kani, kani::unwind(7))]
pub fn h_c02_multi_bbac() {
    let init = [sym::u8(), sym::u8(), sym::u8(), sym::u8()];
    let mut reg = reg_abcd(init);
    assert!(matches!(reg.try_get_multiple_mut::<(B, B, A, C)>(), Err(StateError::MultipleBorrowConflict(_))), "a tuple in which a type repeats is refused");
    assert!(reg.try_get_value::<A>().ok() == Some(init[0]) && reg.try_get_value::<C>().ok() == Some(init[2]), "nothing changed");
    vcover!(true, "reached");
    std::mem::forget(reg);
}
// @h tier=thorough bound="tuple type (B, B, B, A) over a registry holding A,B,C,D; symbolic values" unwind=7 memsafe=1 cost=2
#[cfg_attr(kani, kani::proof)]
#[cfg_attr(kani, kani::unwind(7))]
pub fn h_c02_multi_bbba() {
    let init = [sym::u8(), sym::u8(), sym::u8(), sym::u8()];
    let mut reg = reg_abcd(init);
    assert!(matches!(reg.try_get_multiple_mut::<(B, B, B, A)>(), Err(StateError::MultipleBorrowConflict(_))), "a tuple in which a type repeats is refused");
    assert!(reg.try_get_value::<A>().ok() == Some(init[0]) && reg.try_get_value::<C>().ok() == Some(init[2]), "nothing changed");
    vcover!(true, "reached");
    std::mem::forget(reg);
}
// @h tier=thorough bound="tuple type (B, B, B, B) over a registry holding A,B,C,D; symbolic values" unwind=7 memsafe=1 cost=2
#[cfg_attr(kani, kani::proof)]
#[cfg_attr(kani, kani::unwind(7))]
pub fn h_c02_multi_bbbb() {
    let init = [sym::u8(), sym::u8(), sym::u8(), sym::u8()];
    let mut reg = reg_abcd(init);
    assert!(matches!(reg.try_get_multiple_mut::<(B, B, B, B)>(), Err(StateError::MultipleBorrowConflict(_))), "a tuple in which a type repeats is refused");
    assert!(reg.try_get_value::<A>().ok() == Some(init[0]) && reg.try_get_value::<C>().ok() == Some(init[2]), "nothing changed");
    vcover!(true, "reached");
    std::mem::forget(reg);
}
// @h tier=thorough bound="tuple type (B, B, B, C) over a registry holding A,B,C,D; symbolic values" unwind=7 memsafe=1 cost=2
#[cfg_attr(kani, kani::proof)]
#[cfg_attr(kani, kani::unwind(7))]
pub fn h_c02_multi_bbbc() {
    let init = [sym::u8(), sym::u8(), sym::u8(), sym::u8()];
    let mut reg = reg_abcd(init);
    assert!(matches!(reg.try_get_multiple_mut::<(B, B, B, C)>(), Err(StateError::MultipleBorrowConflict(_))), "a tuple in which a type repeats is refused");
    assert!(reg.try_get_value::<A>().ok() == Some(init[0]) && reg.try_get_value::<C>().ok() == Some(init[2]), "nothing changed");
    vcover!(true, "reached");
    std::mem::forget(reg);
}
// @h tier=thorough bound="tuple type (B, B, C, A) over a registry holding A,B,C,D; symbolic values" unwind=7 memsafe=1 cost=2
#[cfg_attr(kani, kani::proof)]
#[cfg_attr(kani, kani::unwind(7))]
pub fn h_c02_multi_bbca() {
    let init = [sym::u8(), sym::u8(), sym::u8(), sym::u8()];
    let mut reg = reg_abcd(init);
    assert!(matches!(reg.try_get_multiple_mut::<(B, B, C, A)>(), Err(StateError::MultipleBorrowConflict(_))), "a tuple in which a type repeats is refused");
    assert!(reg.try_get_value::<A>().ok() == Some(init[0]) && reg.try_get_value::<C>().ok() == Some(init[2]), "nothing changed");
    vcover!(true, "reached");
    std::mem::forget(reg);
}
// @h tier=thorough bound="tuple type (B, B, C, B) over a registry holding A,B,C,D; symbolic values" unwind=7 memsafe=1 cost=2
#[cfg_attr(kani, kani::proof)]
#[cfg_attr(kani, kani::unwind(7))]
pub fn h_c02_multi_bbcb() {
    let init = [sym::u8(), sym::u8(), sym::u8(), sym::u8()];
    let mut reg = reg_abcd(init);
    assert!(matches!(reg.try_get_multiple_mut::<(B, B, C, B)>(), Err(StateError::MultipleBorrowConflict(_))), "a tuple in which a type repeats is refused");
    assert!(reg.try_get_value::<A>().ok() == Some(init[0]) && reg.try_get_value::<C>().ok() == Some(init[2]), "nothing changed");
    vcover!(true, "reached");
    std::mem::forget(reg);
}
// @h tier=thorough bound="tuple type (B, B, C, C) over a registry holding A,B,C,D; symbolic values" unwind=7 memsafe=1 cost=2
#[cfg_attr(kani, kani::proof)]
#[cfg_attr(kani, kani::unwind(7))]
pub fn h_c02_multi_bbcc() {
    let init = [sym::u8(), sym::u8(), sym::u8(), sym::u8()];
    let mut reg = reg_abcd(init);
    assert!(matches!(reg.try_get_multiple_mut::<(B, B, C, C)>(), Err(StateError::MultipleBorrowConflict(_))), "a tuple in which a type repeats is refused");
    assert!(reg.try_get_value::<A>().ok() == Some(init[0]) && reg.try_get_value::<C>().ok() == Some(init[2]), "nothing changed");
    vcover!(true, "reached");
    std::mem::forget(reg);
}
// @h tier=thorough bound="tuple type (B, C, A, A) over a registry holding A,B,C,D; symbolic values" unwind=7 memsafe=1 cost=2
#[cfg_attr(kani, kani::proof)]
#[cfg_attr(kani, kani::unwind(7))]
pub fn h_c02_multi_bcaa() {
    let init = [sym::u8(), sym::u8(), sym::u8(), sym::u8()];
    let mut reg = reg_abcd(init);
    assert!(matches!(reg.try_get_multiple_mut::<(B, C, A, A)>(), Err(StateError::MultipleBorrowConflict(_))), "a tuple in which a type repeats is refused");
    assert!(reg.try_get_value::<A>().ok() == Some(init[0]) && reg.try_get_value::<C>().ok() == Some(init[2]), "nothing changed");
    vcover!(true, "reached");
    std::mem::forget(reg);
}
// @h tier=thorough bound="tuple type (B, C, A, B) over a registry holding A,B,C,D; symbolic values" unwind=7 memsafe=1 cost=2
#[cfg_attr(kani, kani::proof)]
#[cfg_attr(kani, kani::unwind(7))]
pub fn h_c02_multi_bcab() {
    let init = [sym::u8(), sym::u8(), sym::u8(), sym::u8()];
    let mut reg = reg_abcd(init);
    assert!(matches!(reg.try_get_multiple_mut::<(B, C, A, B)>(), Err(StateError::MultipleBorrowConflict(_))), "a tuple in which a type repeats is refused");
    assert!(reg.try_get_value::<A>().ok() == Some(init[0]) && reg.try_get_value::<C>().ok() == Some(init[2]), "nothing changed");
    vcover!(true, "reached");
    std::mem::forget(reg);
}
// @h tier=thorough bound="tuple type (B, C, A, C) over a registry holding A,B,C,D; symbolic values" unwind=7 memsafe=1 cost=2
#[cfg_attr(kani, kani::proof)]
#[cfg_attr(kani, kani::unwind(7))]
pub fn h_c02_multi_bcac() {
    let init = [sym::u8(), sym::u8(), sym::u8(), sym::u8()];
    let mut reg = reg_abcd(init);
    assert!(matches!(reg.try_get_multiple_mut::<(B, C, A, C)>(), Err(StateError::MultipleBorrowConflict(_))), "a tuple in which a type repeats is refused");
    assert!(reg.try_get_value::<A>().ok() == Some(init[0]) && reg.try_get_value::<C>().ok() == Some(init[2]), "nothing changed");
    vcover!(true, "reached");
    std::mem::forget(reg);
}
// @h tier=thorough bound="tuple type (B, C, B, A) over a registry holding A,B,C,D; symbolic values" unwind=7 memsafe=1 cost=2
#[cfg_attr(kani, kani::proof)]
#[cfg_attr(kani, kani::unwind(7))]
pub fn h_c02_multi_bcba() {
    let init = [sym::u8(), sym::u8(), sym::u8(), sym::u8()];
    let mut reg = reg_abcd(init);
    assert!(matches!(reg.try_get_multiple_mut::<(B, C, B, A)>(), Err(StateError::MultipleBorrowConflict(_))), "a tuple in which a type repeats is refused");
    assert!(reg.try_get_value::<A>().ok() == Some(init[0]) && reg.try_get_value::<C>().ok() == Some(init[2]), "nothing changed");
    vcover!(true, "reached");
    std::mem::forget(reg);
}
// @h tier=thorough bound="tuple type (B, C, B, B) over a registry holding A,B,C,D; symbolic values" unwind=7 memsafe=1 cost=2
#[cfg_attr(kani, kani::proof)]
#[cfg_attr(kani, kani::unwind(7))]
pub fn h_c02_multi_bcbb() {
    let init = [sym::u8(), sym::u8(), sym::u8(), sym::u8()];
    let mut reg = reg_abcd(init);
    assert!(matches!(reg.try_get_multiple_mut::<(B, C, B, B)>(), Err(StateError::MultipleBorrowConflict(_))), "a tuple in which a type repeats is refused");
    assert!(reg.try_get_value::<A>().ok() == Some(init[0]) && reg.try_get_value::<C>().ok() == Some(init[2]), "nothing changed");
    vcover!(true, "reached");
    std::mem::forget(reg);
}
// @h tier=thorough bound="tuple type (B, C, B, C) over a registry holding A,B,C,D; symbolic values" unwind=7 memsafe=1 cost=2
#[cfg_attr(kani, kani::proof)]
#[cfg_attr(kani, kani::unwind(7))]
pub fn h_c02_multi_bcbc() {
    let init = [sym::u8(), sym::u8(), sym::u8(), sym::u8()];
    let mut reg = reg_abcd(init);
    assert!(matches!(reg.try_get_multiple_mut::<(B, C, B, C)>(), Err(StateError::MultipleBorrowConflict(_))), "a tuple in which a type repeats is refused");
    assert!(reg.try_get_value::<A>().ok() == Some(init[0]) && reg.try_get_value::<C>().ok() == Some(init[2]), "nothing changed");
    vcover!(true, "reached");
    std::mem::forget(reg);
}
// @h tier=thorough bound="tuple type (B, C, C, A) over a registry holding A,B,C,D; symbolic values" unwind=7 memsafe=1 cost=2
#[cfg_attr(kani, kani::proof)]
#[cfg_attr(kani, kani::unwind(7))]
pub fn h_c02_multi_bcca() {
    let init = [sym::u8(), sym::u8(), sym::u8(), sym::u8()];
    let mut reg = reg_abcd(init);
    assert!(matches!(reg.try_get_multiple_mut::<(B, C, C, A)>(), Err(StateError::MultipleBorrowConflict(_))), "a tuple in which a type repeats is refused");
    assert!(reg.try_get_value::<A>().ok() == Some(init[0]) && reg.try_get_value::<C>().ok() == Some(init[2]), "nothing changed");
    vcover!(true, "reached");
    std::mem::forget(reg);
}
// @h tier=thorough bound="tuple type (B, C, C, B) over a registry holding A,B,C,D; symbolic values" unwind=7 memsafe=1 cost=2
#[cfg_attr(kani, kani::proof)]
#[cfg_attr(kani, kani::unwind(7))]
pub fn h_c02_multi_bccb() {
    let init = [sym::u8(), sym::u8(), sym::u8(), sym::u8()];
    let mut reg = reg_abcd(init);
    assert!(matches!(reg.try_get_multiple_mut::<(B, C, C, B)>(), Err(StateError::MultipleBorrowConflict(_))), "a tuple in which a type repeats is refused");
    assert!(reg.try_get_value::<A>().ok() == Some(init[0]) && reg.try_get_value::<C>().ok() == Some(init[2]), "nothing changed");
    vcover!(true, "reached");
    std::mem::forget(reg);
}
// @h tier=thorough bound="tuple type (B, C, C, C) over a registry holding A,B,C,D; symbolic values" unwind=7 memsafe=1 cost=2
#[cfg_attr(kani, kani::proof)]
#[cfg_attr(kani, kani::unwind(7))]
pub fn h_c02_multi_bccc() {
    let init = [sym::u8(), sym::u8(), sym::u8(), sym::u8()];
    let mut reg = reg_abcd(init);
    assert!(matches!(reg.try_get_multiple_mut::<(B, C, C, C)>(), Err(StateError::MultipleBorrowConflict(_))), "a tuple in which a type repeats is refused");
    assert!(reg.try_get_value::<A>().ok() == Some(init[0]) && reg.try_get_value::<C>().ok() == Some(init[2]), "nothing changed");
    vcover!(true, "reached");
    std::mem::forget(reg);
}
// @h tier=thorough bound="tuple type (C, A, A, A) over a registry holding A,B,C,D; symbolic values" unwind=7 memsafe=1 cost=2
#[cfg_attr(kani, kani::proof)]
#[cfg_attr(kani, kani::unwind(7))]
pub fn h_c02_multi_caaa() {
    let init = [sym::u8(), sym::u8(), sym::u8(), sym::u8()];
    let mut reg = reg_abcd(init);
    assert!(matches!(reg.try_get_multiple_mut::<(C, A, A, A)>(), Err(StateError::MultipleBorrowConflict(_))), "a tuple in which a type repeats is refused");
    assert!(reg.try_get_value::<A>().ok() == Some(init[0]) && reg.try_get_value::<C>().ok() == Some(init[2]), "nothing changed");
    vcover!(true, "reached");
    std::mem::forget(reg);
}
// @h tier=thorough bound="tuple type (C, A, A, B) over a registry holding A,B,C,D; symbolic values" unwind=7 memsafe=1 cost=2
#[cfg_attr(kani, kani::proof)]
#[cfg_attr(kani, kani::unwind(7))]
pub fn h_c02_multi_caab() {
    let init = [sym::u8(), sym::u8(), sym::u8(), sym::u8()];
    let mut reg = reg_abcd(init);
    assert!(matches!(reg.try_get_multiple_mut::<(C, A, A, B)>(), Err(StateError::MultipleBorrowConflict(_))), "a tuple in which a type repeats is refused");
    assert!(reg.try_get_value::<A>().ok() == Some(init[0]) && reg.try_get_value::<C>().ok() == Some(init[2]), "nothing changed");
    vcover!(true, "reached");
    std::mem::forget(reg);
}
// @h tier=thorough bound="tuple type (C, A, A, C) over a registry holding A,B,C,D; symbolic values" unwind=7 memsafe=1 cost=2
#[cfg_attr(kani, kani::proof)]
#[cfg_attr(kani, kani::unwind(7))]
pub fn h_c02_multi_caac() {
    let init = [sym::u8(), sym::u8(), sym::u8(), sym::u8()];
    let mut reg = reg_abcd(init);
    assert!(matches!(reg.try_get_multiple_mut::<(C, A, A, C)>(), Err(StateError::MultipleBorrowConflict(_))), "a tuple in which a type repeats is refused");
    assert!(reg.try_get_value::<A>().ok() == Some(init[0]) && reg.try_get_value::<C>().ok() == Some(init[2]), "nothing changed");
    vcover!(true, "reached");
    std::mem::forget(reg);
}
// @h tier=thorough bound="tuple type (C, A, B, A) over a registry holding A,B,C,D; symbolic values" unwind=7 memsafe=1 cost=2
#[cfg_attr(kani, kani::proof)]
#[cfg_attr(kani, kani::unwind(7))]
pub fn h_c02_multi_caba() {
    let init = [sym::u8(), sym::u8(), sym::u8(), sym::u8()];
    let mut reg = reg_abcd(init);
    assert!(matches!(reg.try_get_multiple_mut::<(C, A, B, A)>(), Err(StateError::MultipleBorrowConflict(_))), "a tuple in which a type repeats is refused");
    assert!(reg.try_get_value::<A>().ok() == Some(init[0]) && reg.try_get_value::<C>().ok() == Some(init[2]), "nothing changed");
    vcover!(true, "reached");
    std::mem::forget(reg);
}
// @h tier=thorough bound="tuple type (C, A, B, B) over a registry holding A,B,C,D; symbolic values" unwind=7 memsafe=1 cost=2
#[cfg_attr(kani, kani::proof)]
#[cfg_attr(kani, kani::unwind(7))]
pub fn h_c02_multi_cabb() {
    let init = [sym::u8(), sym::u8(), sym::u8(), sym::u8()];
    let mut reg = reg_abcd(init);
    assert!(matches!(reg.try_get_multiple_mut::<(C, A, B, B)>(), Err(StateError::MultipleBorrowConflict(_))), "a tuple in which a type repeats is refused");
    assert!(reg.try_get_value::<A>().ok() == Some(init[0]) && reg.try_get_value::<C>().ok() == Some(init[2]), "nothing changed");
    vcover!(true, "reached");
    std::mem::forget(reg);
}
// @h tier=thorough bound="tuple type (C, A, B, C) over a registry holding A,B,C,D; symbolic values" unwind=7 memsafe=1 cost=2
#[cfg_attr(kani, kani::proof)]
#[cfg_attr(kani, kani::unwind(7))]
pub fn h_c02_multi_cabc() {
    let init = [sym::u8(), sym::u8(), sym::u8(), sym::u8()];
    let mut reg = reg_abcd(init);
    assert!(matches!(reg.try_get_multiple_mut::<(C, A, B, C)>(), Err(StateError::MultipleBorrowConflict(_))), "a tuple in which a type repeats is refused");
    assert!(reg.try_get_value::<A>().ok() == Some(init[0]) && reg.try_get_value::<C>().ok() == Some(init[2]), "nothing changed");
    vcover!(true, "reached");
    std::mem::forget(reg);
}
// @h tier=thorough bound="tuple type (C, A, C, A) over a registry holding A,B,C,D; symbolic values" unwind=7 memsafe=1 cost=2
#[cfg_attr(kani, kani::proof)]
#[cfg_attr(kani, kani::unwind(7))]
pub fn h_c02_multi_caca() {
    let init = [sym::u8(), sym::u8(), sym::u8(), sym::u8()];
    let mut reg = reg_abcd(init);
    assert!(matches!(reg.try_get_multiple_mut::<(C, A, C, A)>(), Err(StateError::MultipleBorrowConflict(_))), "a tuple in which a type repeats is refused");
    assert!(reg.try_get_value::<A>().ok() == Some(init[0]) && reg.try_get_value::<C>().ok() == Some(init[2]), "nothing changed");
    vcover!(true, "reached");
    std::mem::forget(reg);
}
// @h tier=thorough bound="tuple type (C, A, C, B) over a registry holding A,B,C,D; symbolic values" unwind=7 memsafe=1 cost=2
#[cfg_attr(kani, kani::proof)]
#[cfg_attr(kani, kani::unwind(7))]
pub fn h_c02_multi_cacb() {
    let init = [sym::u8(), sym::u8(), sym::u8(), sym::u8()];
    let mut reg = reg_abcd(init);
    assert!(matches!(reg.try_get_multiple_mut::<(C, A, C, B)>(), Err(StateError::MultipleBorrowConflict(_))), "a tuple in which a type repeats is refused");
    assert!(reg.try_get_value::<A>().ok() == Some(init[0]) && reg.try_get_value::<C>().ok() == Some(init[2]), "nothing changed");
    vcover!(true, "reached");
    std::mem::forget(reg);
}
// @h tier=thorough bound="tuple type (C, A, C, C) over a registry holding A,B,C,D; symbolic values" unwind=7 memsafe=1 cost=2
#[cfg_attr(kani, kani::proof)]
#[cfg_attr(kani, kani::unwind(7))]
pub fn h_c02_multi_cacc() {
    let init = [sym::u8(), sym::u8(), sym::u8(), sym::u8()];
    let mut reg = reg_abcd(init);
    assert!(matches!(reg.try_get_multiple_mut::<(C, A, C, C)>(), Err(StateError::MultipleBorrowConflict(_))), "a tuple in which a type repeats is refused");
    assert!(reg.try_get_value::<A>().ok() == Some(init[0]) && reg.try_get_value::<C>().ok() == Some(init[2]), "nothing changed");
    vcover!(true, "reached");
    std::mem::forget(reg);
}
// @h tier=thorough bound="tuple type (C, B, A, A) over a registry holding A,B,C,D; symbolic values" unwind=7 memsafe=1 cost=2
#[cfg_attr(kani, kani::proof)]
#[cfg_attr(kani, kani::unwind(7))]
pub fn h_c02_multi_cbaa() {
    let init = [sym::u8(), sym::u8(), sym::u8(), sym::u8()];
    let mut reg = reg_abcd(init);
    assert!(matches!(reg.try_get_multiple_mut::<(C, B, A, A)>(), Err(StateError::MultipleBorrowConflict(_))), "a tuple in which a type repeats is refused");
    assert!(reg.try_get_value::<A>().ok() == Some(init[0]) && reg.try_get_value::<C>().ok() == Some(init[2]), "nothing changed");
    vcover!(true, "reached");
    std::mem::forget(reg);
}
// @h tier=thorough bound="tuple type (C, B, A, B) over a registry holding A,B,C,D; symbolic values" unwind=7 memsafe=1 cost=2
#[cfg_attr(kani, kani::proof)]
#[cfg_attr(kani, kani::unwind(7))]
pub fn h_c02_multi_cbab() {
    let init = [sym::u8(), sym::u8(), sym::u8(), sym::u8()];
    let mut reg = reg_abcd(init);
    assert!(matches!(reg.try_get_multiple_mut::<(C, B, A, B)>(), Err(StateError::MultipleBorrowConflict(_))), "a tuple in which a type repeats is refused");
    assert!(reg.try_get_value::<A>().ok() == Some(init[0]) && reg.try_get_value::<C>().ok() == Some(init[2]), "nothing changed");
    vcover!(true, "reached");
    std::mem::forget(reg);
}
// @h tier=thorough bound="tuple type (C, B, A, C) over a registry holding A,B,C,D; symbolic values" unwind=7 memsafe=1 cost=2
#[cfg_attr(kani, kani::proof)]
#[cfg_attr(kani, kani::unwind(7))]
pub fn h_c02_multi_cbac() {
    let init = [sym::u8(), sym::u8(), sym::u8(), sym::u8()];
    let mut reg = reg_abcd(init);
    assert!(matches!(reg.try_get_multiple_mut::<(C, B, A, C)>(), Err(StateError::MultipleBorrowConflict(_))), "a tuple in which a type repeats is refused");
    assert!(reg.try_get_value::<A>().ok() == Some(init[0]) && reg.try_get_value::<C>().ok() == Some(init[2]), "nothing changed");
    vcover!(true, "reached");
    std::mem::forget(reg);
}
// @h tier=thorough bound="tuple type (C, B, B, A) over a registry holding A,B,C,D; symbolic values" unwind=7 memsafe=1 cost=2
#[cfg_attr(kani, kani::proof)]
#[cfg_attr(kani, kani::unwind(7))]
pub fn h_c02_multi_cbba() {
    let init = [sym::u8(), sym::u8(), sym::u8(), sym::u8()];
    let mut reg = reg_abcd(init);
    assert!(matches!(reg.try_get_multiple_mut::<(C, B, B, A)>(), Err(StateError::MultipleBorrowConflict(_))), "a tuple in which a type repeats is refused");
    assert!(reg.try_get_value::<A>().ok() == Some(init[0]) && reg.try_get_value::<C>().ok() == Some(init[2]), "nothing changed");
    vcover!(true, "reached");
    std::mem::forget(reg);
}
// @h tier=thorough bound="tuple type (C, B, B, B) over a registry holding A,B,C,D; symbolic values" unwind=7 memsafe=1 cost=2
#[cfg_attr(kani, kani::proof)]
#[cfg_attr(kani, kani::unwind(7))]
pub fn h_c02_multi_cbbb() {
    let init = [sym::u8(), sym::u8(), sym::u8(), sym::u8()];
    let mut reg = reg_abcd(init);
    assert!(matches!(reg.try_get_multiple_mut::<(C, B, B, B)>(), Err(StateError::MultipleBorrowConflict(_))), "a tuple in which a type repeats is refused");
    assert!(reg.try_get_value::<A>().ok() == Some(init[0]) && reg.try_get_value::<C>().ok() == Some(init[2]), "nothing changed");
    vcover!(true, "reached");
    std::mem::forget(reg);
}
// @h tier=thorough bound="tuple type (C, B, B, C) over a registry holding A,B,C,D; symbolic values" unwind=7 memsafe=1 cost=2
#[cfg_attr(kani, kani::proof)]
#[cfg_attr(kani, kani::unwind(7))]
pub fn h_c02_multi_cbbc() {
    let init = [sym::u8(), sym::u8(), sym::u8(), sym::u8()];
    let mut reg = reg_abcd(init);
    assert!(matches!(reg.try_get_multiple_mut::<(C, B, B, C)>(), Err(StateError::MultipleBorrowConflict(_))), "a tuple in which a type repeats is refused");
    assert!(reg.try_get_value::<A>().ok() == Some(init[0]) && reg.try_get_value::<C>().ok() == Some(init[2]), "nothing changed");
    vcover!(true, "reached");
    std::mem::forget(reg);
}
// @h tier=thorough bound="tuple type (C, B, C, A) over a registry holding A,B,C,D; symbolic values" unwind=7 memsafe=1 cost=2
#[cfg_attr(kani, kani::proof)]
#[cfg_attr(kani, kani::unwind(7))]
pub fn h_c02_multi_cbca() {
    let init = [sym::u8(), sym::u8(), sym::u8(), sym::u8()];
    let mut reg = reg_abcd(init);
    assert!(matches!(reg.try_get_multiple_mut::<(C, B, C, A)>(), Err(StateError::MultipleBorrowConflict(_))), "a tuple in which a type repeats is refused");
    assert!(reg.try_get_value::<A>().ok() == Some(init[0]) && reg.try_get_value::<C>().ok() == Some(init[2]), "nothing changed");
    vcover!(true, "reached");
    std::mem::forget(reg);
}
// @h tier=thorough bound="tuple type (C, B, C, B) over a registry holding A,B,C,D; symbolic values" unwind=7 memsafe=1 cost=2
#[cfg_attr(kani, kani::proof)]
#[cfg_attr(kani, kani::unwind(7))]
pub fn h_c02_multi_cbcb() {
    let init = [sym::u8(), sym::u8(), sym::u8(), sym::u8()];
    let mut reg = reg_abcd(init);
    assert!(matches!(reg.try_get_multiple_mut::<(C, B, C, B)>(), Err(StateError::MultipleBorrowConflict(_))), "a tuple in which a type repeats is refused");
    assert!(reg.try_get_value::<A>().ok() == Some(init[0]) && reg.try_get_value::<C>().ok() == Some(init[2]), "nothing changed");
    vcover!(true, "reached");
    std::mem::forget(reg);
}
// @h tier=thorough bound="tuple type (C, B, C, C) over a registry holding A,B,C,D; symbolic values" unwind=7 memsafe=1 cost=2
#[cfg_attr(kani, kani::proof)]
#[cfg_attr(kani, kani::unwind(7))]
pub fn h_c02_multi_cbcc() {
    let init = [sym::u8(), sym::u8(), sym::u8(), sym::u8()];
    let mut reg = reg_abcd(init);
    assert!(matches!(reg.try_get_multiple_mut::<(C, B, C, C)>(), Err(StateError::MultipleBorrowConflict(_))), "a tuple in which a type repeats is refused");
    assert!(reg.try_get_value::<A>().ok() == Some(init[0]) && reg.try_get_value::<C>().ok() == Some(init[2]), "nothing changed");
    vcover!(true, "reached");
    std::mem::forget(reg);
}
// @h tier=thorough bound="tuple type (C, C, A, A) over a registry holding A,B,C,D; symbolic values" unwind=7 memsafe=1 cost=2
#[cfg_attr(kani, kani::proof)]
#[cfg_attr(kani, kani::unwind(7))]
pub fn h_c02_multi_ccaa() {
    let init = [sym::u8(), sym::u8(), sym::u8(), sym::u8()];
    let mut reg = reg_abcd(init);
    assert!(matches!(reg.try_get_multiple_mut::<(C, C, A, A)>(), Err(StateError::MultipleBorrowConflict(_))), "a tuple in which a type repeats is refused");
    assert!(reg.try_get_value::<A>().ok() == Some(init[0]) && reg.try_get_value::<C>().ok() == Some(init[2]), "nothing changed");
    vcover!(true, "reached");
    std::mem::forget(reg);
}
// @h tier=thorough bound="tuple type (C, C, A, B) over a registry holding A,B,C,D; symbolic values" unwind=7 memsafe=1 cost=2
#[cfg_attr(kani, kani::proof)]
#[cfg_attr(kani, kani::unwind(7))]
pub fn h_c02_multi_ccab() {
    let init = [sym::u8(), sym::u8(), sym::u8(), sym::u8()];
    let mut reg = reg_abcd(init);
    assert!(matches!(reg.try_get_multiple_mut::<(C, C, A, B)>(), Err(StateError::MultipleBorrowConflict(_))), "a tuple in which a type repeats is refused");
    assert!(reg.try_get_value::<A>().ok() == Some(init[0]) && reg.try_get_value::<C>().ok() == Some(init[2]), "nothing changed");
    vcover!(true, "reached");
    std::mem::forget(reg);
}
// @h tier=thorough bound="tuple type (C, C, A, C) over a registry holding A,B,C,D; symbolic values" unwind=7 memsafe=1 cost=2
#[cfg_attr(kani, kani::proof)]
#[cfg_attr(kani, kani::unwind(7))]
pub fn h_c02_multi_ccac() {
    let init = [sym::u8(), sym::u8(), sym::u8(), sym::u8()];
    let mut reg = reg_abcd(init);
    assert!(matches!(reg.try_get_multiple_mut::<(C, C, A, C)>(), Err(StateError::MultipleBorrowConflict(_))), "a tuple in which a type repeats is refused");
    assert!(reg.try_get_value::<A>().ok() == Some(init[0]) && reg.try_get_value::<C>().ok() == Some(init[2]), "nothing changed");
    vcover!(true, "reached");
    std::mem::forget(reg);
}
// @h tier=thorough bound="tuple type (C, C, B, A) over a registry holding A,B,C,D; symbolic values" unwind=7 memsafe=1 cost=2
#[cfg_attr(kani, kani::proof)]
#[cfg_attr(kani, kani::unwind(7))]
pub fn h_c02_multi_ccba() {
    let init = [sym::u8(), sym::u8(), sym::u8(), sym::u8()];
    let mut reg = reg_abcd(init);
    assert!(matches!(reg.try_get_multiple_mut::<(C, C, B, A)>(), Err(StateError::MultipleBorrowConflict(_))), "a tuple in which a type repeats is refused");
    assert!(reg.try_get_value::<A>().ok() == Some(init[0]) && reg.try_get_value::<C>().ok() == Some(init[2]), "nothing changed");
    vcover!(true, "reached");
    std::mem::forget(reg);
}
// @h tier=thorough bound="tuple type (C, C, B, B) over a registry holding A,B,C,D; symbolic values" unwind=7 memsafe=1 cost=2
#[cfg_attr(kani, kani::proof)]
#[cfg_attr(kani, kani::unwind(7))]
pub fn h_c02_multi_ccbb() {
    let init = [sym::u8(), sym::u8(), sym::u8(), sym::u8()];
    let mut reg = reg_abcd(init);
    assert!(matches!(reg.try_get_multiple_mut::<(C, C, B, B)>(), Err(StateError::MultipleBorrowConflict(_))), "a tuple in which a type repeats is refused");
    assert!(reg.try_get_value::<A>().ok() == Some(init[0]) && reg.try_get_value::<C>().ok() == Some(init[2]), "nothing changed");
    vcover!(true, "reached");
    std::mem::forget(reg);
}
// @h tier=thorough bound="tuple type (C, C, B, C) over a registry holding A,B,C,D; symbolic values" unwind=7 memsafe=1 cost=2
#[cfg_attr(kani, kani::proof)]
#[cfg_attr(kani, kani::unwind(7))]
pub fn h_c02_multi_ccbc() {
    let init = [sym::u8(), sym::u8(), sym::u8(), sym::u8()];
    let mut reg = reg_abcd(init);
    assert!(matches!(reg.try_get_multiple_mut::<(C, C, B, C)>(), Err(StateError::MultipleBorrowConflict(_))), "a tuple in which a type repeats is refused");
    assert!(reg.try_get_value::<A>().ok() == Some(init[0]) && reg.try_get_value::<C>().ok() == Some(init[2]), "nothing changed");
    vcover!(true, "reached");
    std::mem::forget(reg);
}
// @h tier=thorough bound="tuple type (C, C, C, A) over a registry holding A,B,C,D; symbolic values" unwind=7 memsafe=1 cost=2
#[cfg_attr(kani, kani::proof)]
#[cfg_attr(kani, kani::unwind(7))]
pub fn h_c02_multi_ccca() {
    let init = [sym::u8(), sym::u8(), sym::u8(), sym::u8()];
    let mut reg = reg_abcd(init);
    assert!(matches!(reg.try_get_multiple_mut::<(C, C, C, A)>(), Err(StateError::MultipleBorrowConflict(_))), "a tuple in which a type repeats is refused");
    assert!(reg.try_get_value::<A>().ok() == Some(init[0]) && reg.try_get_value::<C>().ok() == Some(init[2]), "nothing changed");
    vcover!(true, "reached");
    std::mem::forget(reg);
}
// @h tier=thorough bound="tuple type (C, C, C, B) over a registry holding A,B,C,D; symbolic values" unwind=7 memsafe=1 cost=2
#[cfg_attr(kani, kani::proof)]
#[cfg_attr(kani, kani::unwind(7))]
pub fn h_c02_multi_cccb() {
    let init = [sym::u8(), sym::u8(), sym::u8(), sym::u8()];
    let mut reg = reg_abcd(init);
    assert!(matches!(reg.try_get_multiple_mut::<(C, C, C, B)>(), Err(StateError::MultipleBorrowConflict(_))), "a tuple in which a type repeats is refused");
    assert!(reg.try_get_value::<A>().ok() == Some(init[0]) && reg.try_get_value::<C>().ok() == Some(init[2]), "nothing changed");
    vcover!(true, "reached");
    std::mem::forget(reg);
}
// @h tier=thorough bound="tuple type (C, C, C, C) over a registry holding A,B,C,D; symbolic values" unwind=7 memsafe=1 cost=2
#[cfg_attr(kani, kani::proof)]
#[cfg_attr(kani, kani::unwind(7))]
pub fn h_c02_multi_cccc() {
    let init = [sym::u8(), sym::u8(), sym::u8(), sym::u8()];
    let mut reg = reg_abcd(init);
    assert!(matches!(reg.try_get_multiple_mut::<(C, C, C, C)>(), Err(StateError::MultipleBorrowConflict(_))), "a tuple in which a type repeats is refused");
    assert!(reg.try_get_value::<A>().ok() == Some(init[0]) && reg.try_get_value::<C>().ok() == Some(init[2]), "nothing changed");
    vcover!(true, "reached");
    std::mem::forget(reg);
}
