//! Symbolic random number generator: every output is a fresh nondeterministic value.
//!
//! `mahf::Random::with_rng::<SymRng>(seed)` is a public constructor, so no hook is needed.
//! Draw budget (DESIGN §2.2 B6): after `budget` draws the path is cut with `assume(false)`;
//! the claim is then "for every draw sequence on which the operator finishes within the budget".
use rand::{RngCore, SeedableRng};

static mut DRAWS: u32 = 0;
static mut BUDGET: u32 = u32::MAX;

pub fn set_budget(b: u32) {
    unsafe {
        DRAWS = 0;
        BUDGET = b;
    }
}
pub fn draws() -> u32 {
    unsafe { DRAWS }
}

pub struct SymRng;
impl SymRng {
    #[inline(always)]
    fn tick() {
        unsafe {
            DRAWS += 1;
            crate::sym::assume(DRAWS <= BUDGET);
        }
    }
}
impl RngCore for SymRng {
    fn next_u32(&mut self) -> u32 {
        Self::tick();
        crate::sym::u32()
    }
    fn next_u64(&mut self) -> u64 {
        Self::tick();
        crate::sym::u64()
    }
    fn fill_bytes(&mut self, dest: &mut [u8]) {
        Self::tick();
        for b in dest {
            *b = crate::sym::u8();
        }
    }
    fn try_fill_bytes(&mut self, dest: &mut [u8]) -> Result<(), rand::Error> {
        self.fill_bytes(dest);
        Ok(())
    }
}
impl SeedableRng for SymRng {
    type Seed = [u8; 8];
    fn from_seed(_: Self::Seed) -> Self {
        SymRng
    }
    fn seed_from_u64(_: u64) -> Self {
        SymRng
    }
}

pub fn sym_random(budget: u32) -> mahf::Random {
    set_budget(budget);
    mahf::Random::with_rng::<SymRng>(0)
}
