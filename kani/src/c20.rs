//! c20 — harnesses not written yet.
