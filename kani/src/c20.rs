//! C20 — chemical-reaction steps conserve energy and keep molecules aligned.
//! Code: mahf::components::misc::cro::{SynthesisUpdate,OnWallIneffectiveCollisionUpdate,DecompositionUpdate,IntermolecularIneffectiveCollisionUpdate}::execute, Molecule::{new,update_best}, ChemicalReaction, EnergyBuffer
//! Out: populations above 3; energies above 2^20; two EQUAL individuals in the population (the reactant is located by equality, the statement does not cover duplicates); for the three reactions that split energy with a random factor (x*alpha and x*(1-alpha), two symbolic 64-bit products) conservation up to rounding is NOT decided — only that each part is non-negative and that a rejected reaction changes no energy; synthesis (no random factor) is decided bit-exactly
//! Out: (tiers) decomposition and the intermolecular collision need 18 min of SAT each and are thorough-tier; the quick tier decides synthesis (3 reactant orders), the on-wall collision and the layout errors
//! Reclimit: mahf::state::(registry::)?StateRegistry::<.*>::find(_mut)?::<.*>=2
//! Assume: inductive one-step from an arbitrary consistent CRO state: population of unique tagged individuals with symbolic objective values in [0, 2^20], one molecule per individual with symbolic kinetic energy in [0, 2^20], symbolic buffer in [0, 2^20], stack = [population, reactants, products]
use mahf::components::misc::cro::{
    ChemicalReaction, DecompositionUpdate, EnergyBuffer, IntermolecularIneffectiveCollisionUpdate, Molecule,
    OnWallIneffectiveCollisionUpdate, SynthesisUpdate,
};
use mahf::components::Component;
use mahf::state::common::Populations;
use mahf::{Individual, State};

use crate::problems::{obj, TagP};
use crate::rng::sym_random;
use crate::sym;

const BIG: f64 = 1048576.0;
type Ind = Individual<TagP>;

fn energy() -> f64 {
    let x = sym::f64();
    sym::assume(x >= 0.0 && x <= BIG);
    x
}

struct Pre {
    o: [f64; 3],
    ke: [f64; 3],
    buffer: f64,
}

/// State with population [tag 0, tag 1, tag 2][..n], molecules, buffer, and the given reactant /
/// product populations on top.
fn cro_state(n: usize, reactants: &[usize], products: &[(u8, f64)], budget: u32) -> (State<'static, TagP>, Pre) {
    let mut pre = Pre { o: [0.0; 3], ke: [0.0; 3], buffer: energy() };
    let mut pop = Vec::with_capacity(4);
    let mut mols = Vec::with_capacity(4);
    let mut i = 0;
    while i < n {
        pre.o[i] = energy();
        pre.ke[i] = energy();
        pop.push(Individual::new(i as u8, obj(pre.o[i])));
        mols.push(Molecule::new(pre.ke[i], Individual::new(i as u8, obj(pre.o[i]))));
        i += 1;
    }
    let mut r = Vec::with_capacity(2);
    let mut k = 0;
    while k < reactants.len() {
        r.push(Individual::new(reactants[k] as u8, obj(pre.o[reactants[k]])));
        k += 1;
    }
    let mut p = Vec::with_capacity(2);
    let mut k = 0;
    while k < products.len() {
        p.push(Individual::new(products[k].0, obj(products[k].1)));
        k += 1;
    }
    let mut pops = Populations::<TagP>::new();
    pops.push(pop);
    pops.push(r);
    pops.push(p);
    let mut s: State<TagP> = State::new();
    s.insert(EnergyBuffer(pre.buffer));
    s.insert(ChemicalReaction::<TagP>(mols));
    s.insert(sym_random(budget));
    s.insert(pops);
    (s, pre)
}

/// Molecule records stay aligned with the population: same length, record i belongs to
/// individual i (its best solution carries the individual's tag unless the record is older and
/// better), energies non-negative.
fn aligned(s: &State<'static, TagP>, want_len: usize) {
    let p = s.populations();
    assert!(p.len() == 1, "the reactant and product populations are consumed: exactly the population is left");
    let re = s.borrow::<ChemicalReaction<TagP>>();
    assert!(p.current().len() == want_len && re.len() == want_len, "exactly one molecule record per individual");
    let mut i = 0;
    while i < want_len {
        assert!(re[i].kinetic_energy >= 0.0, "no molecule is left with negative kinetic energy");
        i += 1;
    }
    assert!(s.get_value::<EnergyBuffer>() >= 0.0, "the buffer is never negative");
}

// ---- synthesis: deterministic, decided bit-exactly -------------------------------------------------------

fn synthesis(r1: usize, r2: usize, exact: bool) {
    let op = energy();
    let (mut s, pre) = cro_state(3, &[r1, r2], &[(9, op)], 0);
    let r = Component::<TagP>::execute(&SynthesisUpdate::from_params(), &TagP, &mut s);
    assert!(r.is_ok(), "synthesis succeeds on a consistent state");
    let e_r = (pre.o[r1] + pre.ke[r1]) + (pre.o[r2] + pre.ke[r2]);
    let other = 3 - r1 - r2;
    if e_r >= op {
        aligned(&s, 2);
        let p = s.populations();
        let re = s.borrow::<ChemicalReaction<TagP>>();
        // the product replaces r1, r2 is removed, the third individual keeps its record
        let i_prod = if r2 < r1 { r1 - 1 } else { r1 };
        let i_other = if other > r2 { other - 1 } else { other };
        assert!(*p.current()[i_prod].solution() == 9 && *p.current()[i_other].solution() == other as u8, "the product takes the first reactant's place, the second reactant is removed, the rest keeps its order");
        assert!(*re[i_prod].best.solution() == 9, "the product's molecule record sits at the product's index");
        if exact {
            assert!(re[i_prod].kinetic_energy.to_bits() == (e_r - op).to_bits(), "the product's kinetic energy is the reactants' total energy minus its own objective value (energy is conserved)");
        } else {
            assert!(re[i_prod].kinetic_energy <= e_r, "the product's kinetic energy does not exceed the reactants' total energy");
        }
        assert!(*re[i_other].best.solution() == other as u8 && re[i_other].kinetic_energy.to_bits() == pre.ke[other].to_bits(), "the uninvolved molecule keeps its record and energy");
        assert!(s.get_value::<EnergyBuffer>().to_bits() == pre.buffer.to_bits(), "synthesis does not touch the buffer");
    } else {
        aligned(&s, 3);
        let re = s.borrow::<ChemicalReaction<TagP>>();
        let mut i = 0;
        while i < 3 {
            assert!(re[i].kinetic_energy.to_bits() == pre.ke[i].to_bits() && *re[i].best.solution() == i as u8, "a rejected synthesis changes nothing");
            assert!(*s.populations().current()[i].solution() == i as u8, "population unchanged");
            i += 1;
        }
    }
    vcover!(e_r >= op, "accepted");
    vcover!(e_r < op, "rejected");
    std::mem::forget(s);
}
macro_rules! hsyn {
    ($name:ident, $a:expr, $b:expr, $exact:expr) => {
        #[cfg_attr(kani, kani::proof)]
        #[cfg_attr(kani, kani::unwind(6))]
        pub fn $name() {
            synthesis($a, $b, $exact)
        }
    };
}
// Structure, alignment and energy bounds (quick); the bit-exact conservation clause separately (its
// SAT part — two 4-term float sums compared bit by bit — needs 10-20 min per reactant order).
// @h tier=quick bound="population 3, reactants (0,1), all energies in [0,2^20]: structure, alignment, bounds" unwind=6 cost=5 mem=10 timeout=900
hsyn!(h_c20_synthesis_0_1, 0, 1, false);
// @h tier=quick bound="population 3, reactants (2,0) (second reactant before the first): structure, alignment, bounds" unwind=6 cost=5 mem=10 timeout=900
hsyn!(h_c20_synthesis_2_0, 2, 0, false);
// @h tier=quick bound="population 3, reactants (1,2): structure, alignment, bounds" unwind=6 cost=5 mem=10 timeout=900
hsyn!(h_c20_synthesis_1_2, 1, 2, false);
// @h tier=thorough bound="population 3, reactants (2,0): product kinetic energy bit-equal to (E_r1 + E_r2) - f(product)" unwind=6 cost=8 mem=16 timeout=3600
hsyn!(h_c20_synthesis_2_0_exact, 2, 0, true);
// @h tier=thorough bound="population 3, reactants (0,1): product kinetic energy bit-equal to (E_r1 + E_r2) - f(product)" unwind=6 cost=8 mem=16 timeout=3600
hsyn!(h_c20_synthesis_0_1_exact, 0, 1, true);
// @h tier=thorough bound="population 3, reactants (2,1): structure, alignment, bounds" unwind=6 cost=6 mem=10 timeout=1800
hsyn!(h_c20_synthesis_2_1, 2, 1, false);

// ---- on-wall ineffective collision -----------------------------------------------------------------------------

fn on_wall(ridx: usize) {
    let op = energy();
    let (mut s, pre) = cro_state(2, &[ridx], &[(9, op)], 3);
    let c = OnWallIneffectiveCollisionUpdate::from_params(0.5);
    let r = Component::<TagP>::execute(&c, &TagP, &mut s);
    assert!(r.is_ok(), "on-wall collision succeeds on a consistent state");
    aligned(&s, 2);
    let other = 1 - ridx;
    let e_r = pre.o[ridx] + pre.ke[ridx];
    {
        let p = s.populations();
        let re = s.borrow::<ChemicalReaction<TagP>>();
        assert!(re[ridx].num_hit == 1 && re[other].num_hit == 0, "only the reactant's hit counter advances");
        assert!(*p.current()[other].solution() == other as u8 && re[other].kinetic_energy.to_bits() == pre.ke[other].to_bits(), "the uninvolved molecule is untouched");
        if e_r >= op {
            assert!(*p.current()[ridx].solution() == 9, "an accepted collision replaces the reactant by the product, in place");
            assert!(s.get_value::<EnergyBuffer>() >= pre.buffer, "the buffer only receives energy in this reaction");
        } else {
            assert!(*p.current()[ridx].solution() == ridx as u8 && re[ridx].kinetic_energy.to_bits() == pre.ke[ridx].to_bits(), "a rejected collision changes no energy and keeps the reactant");
            assert!(s.get_value::<EnergyBuffer>().to_bits() == pre.buffer.to_bits(), "buffer unchanged on rejection");
        }
    }
    vcover!(e_r >= op, "accepted");
    vcover!(e_r < op, "rejected");
    std::mem::forget((s, c));
}
/// @h tier=quick bound="population 2, reactant index 1, kinetic_energy_lr 0.5, all energies in [0,2^20], all draw sequences within 3 draws" unwind=6 cost=7 mem=10 timeout=1500
#[cfg_attr(kani, kani::proof)]
#[cfg_attr(kani, kani::unwind(6))]
pub fn h_c20_onwall_1() {
    on_wall(1)
}
/// @h tier=thorough bound="population 2, reactant index 0" unwind=6 cost=8 mem=20 timeout=2400
#[cfg_attr(kani, kani::proof)]
#[cfg_attr(kani, kani::unwind(6))]
pub fn h_c20_onwall_0() {
    on_wall(0)
}

// ---- intermolecular ineffective collision ---------------------------------------------------------------------------------

/// @h tier=thorough bound="population 2, reactants (1,0), products 8 and 9, all energies in [0,2^20], all draw sequences within 3 draws" unwind=6 cost=7 mem=10 timeout=3600
#[cfg_attr(kani, kani::proof)]
#[cfg_attr(kani, kani::unwind(6))]
pub fn h_c20_intermolecular() {
    let (op1, op2) = (energy(), energy());
    let (mut s, pre) = cro_state(2, &[1, 0], &[(8, op1), (9, op2)], 3);
    let r = Component::<TagP>::execute(&IntermolecularIneffectiveCollisionUpdate::from_params(), &TagP, &mut s);
    assert!(r.is_ok(), "intermolecular collision succeeds on a consistent state");
    aligned(&s, 2);
    let e_r = (pre.o[1] + pre.ke[1]) + (pre.o[0] + pre.ke[0]);
    {
        let p = s.populations();
        let re = s.borrow::<ChemicalReaction<TagP>>();
        assert!(re[0].num_hit == 1 && re[1].num_hit == 1, "both reactants' hit counters advance");
        if e_r - (op1 + op2) >= 0.0 {
            assert!(*p.current()[1].solution() == 8 && *p.current()[0].solution() == 9, "each product takes the place of its reactant");
        } else {
            assert!(*p.current()[0].solution() == 0 && *p.current()[1].solution() == 1, "a rejected collision keeps the reactants");
            assert!(re[0].kinetic_energy.to_bits() == pre.ke[0].to_bits() && re[1].kinetic_energy.to_bits() == pre.ke[1].to_bits(), "and changes no energy");
        }
        assert!(s.get_value::<EnergyBuffer>().to_bits() == pre.buffer.to_bits(), "the buffer is not involved");
    }
    vcover!(e_r - (op1 + op2) >= 0.0, "accepted");
    vcover!(e_r - (op1 + op2) < 0.0, "rejected");
    std::mem::forget(s);
}

// ---- decomposition ------------------------------------------------------------------------------------------------------------

/// @h tier=thorough bound="population 2, reactant index 0, products 8 and 9, all energies in [0,2^20], all draw sequences within 5 draws" unwind=8 cost=8 mem=12 timeout=3600
#[cfg_attr(kani, kani::proof)]
#[cfg_attr(kani, kani::unwind(8))]
pub fn h_c20_decomposition() {
    let (op1, op2) = (energy(), energy());
    let (mut s, pre) = cro_state(2, &[0], &[(8, op1), (9, op2)], 5);
    let r = Component::<TagP>::execute(&DecompositionUpdate::from_params(), &TagP, &mut s);
    assert!(r.is_ok(), "decomposition succeeds on a consistent state");
    let grown = s.populations().current().len() == 3;
    aligned(&s, if grown { 3 } else { 2 });
    {
        let p = s.populations();
        let re = s.borrow::<ChemicalReaction<TagP>>();
        if grown {
            assert!(*p.current()[0].solution() == 8 && *p.current()[2].solution() == 9 && *p.current()[1].solution() == 1, "the first product replaces the reactant, the second is appended, the rest keeps its place");
            assert!(*re[0].best.solution() == 8 && *re[2].best.solution() == 9 && *re[1].best.solution() == 1, "molecule records follow their individuals");
            assert!(s.get_value::<EnergyBuffer>() <= pre.buffer, "the buffer only gives energy in this reaction");
            if (pre.o[0] + pre.ke[0]) >= op1 + op2 {
                assert!(s.get_value::<EnergyBuffer>().to_bits() == pre.buffer.to_bits(), "enough own energy: the buffer is untouched");
            }
        } else {
            assert!((pre.o[0] + pre.ke[0]) < op1 + op2, "a decomposition with enough own energy is never aborted");
            assert!(*p.current()[0].solution() == 0 && re[0].kinetic_energy.to_bits() == pre.ke[0].to_bits() && re[0].num_hit == 1, "an aborted decomposition changes no energy and counts a hit");
            assert!(s.get_value::<EnergyBuffer>().to_bits() == pre.buffer.to_bits(), "buffer unchanged on abort");
        }
        assert!(re[1].kinetic_energy.to_bits() == pre.ke[1].to_bits(), "the uninvolved molecule keeps its energy");
    }
    vcover!(grown, "decomposed");
    vcover!(!grown, "aborted");
    std::mem::forget(s);
}

/// @h tier=quick bound="wrong stack layouts (too few populations, wrong cardinalities) are errors" unwind=6 cost=5 mem=12 timeout=900
#[cfg_attr(kani, kani::proof)]
#[cfg_attr(kani, kani::unwind(6))]
pub fn h_c20_bad_layout_is_err() {
    // product population with two individuals where one is expected
    let (mut s, _pre) = cro_state(2, &[0], &[(8, 1.0), (9, 2.0)], 3);
    assert!(Component::<TagP>::execute(&OnWallIneffectiveCollisionUpdate::from_params(0.5), &TagP, &mut s).is_err(), "on-wall: two products are an error, not a panic");
    std::mem::forget(s);
    // only two populations on the stack
    let mut pops = Populations::<TagP>::new();
    pops.push(vec![Individual::new(0u8, obj(1.0))]);
    pops.push(vec![Individual::new(0u8, obj(1.0))]);
    let mut s: State<TagP> = State::new();
    s.insert(EnergyBuffer(0.0));
    s.insert(ChemicalReaction::<TagP>(vec![Molecule::new(1.0, Individual::new(0u8, obj(1.0)))]));
    s.insert(sym_random(3));
    s.insert(pops);
    assert!(Component::<TagP>::execute(&SynthesisUpdate::from_params(), &TagP, &mut s).is_err(), "synthesis: a stack of two populations is an error");
    assert!(Component::<TagP>::execute(&DecompositionUpdate::from_params(), &TagP, &mut s).is_err(), "decomposition: a stack of two populations is an error");
    vcover!(true, "reached");
    std::mem::forget(s);
}
