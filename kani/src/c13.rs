//! c13 — harnesses not written yet.
