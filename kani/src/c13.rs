//! C13 — variation operators keep solutions well-formed and conserve parental genes.
//! Code: mahf::components::mutation::functional::{circular_swap,circular_swap2,translocate_slice,translocate_slice2}
//! Code: mahf::components::recombination::functional::{multi_point_crossover,uniform_crossover,arithmetic_crossover,cycle_crossover}
//! Code: mahf::components::recombination::{UniformCrossover,NPointCrossover,ArithmeticCrossover,CycleCrossover}::recombine (called directly), recombination (driver), SwapMutation::from_params, DEMutation::{from_params,execute}
//! Out: solutions longer than 5 elements; the distribution of mutation noise; Normal/Uniform/BitFlip/Scramble/Inversion/Insertion/Translocation mutation *components* through a State with Vec encodings (class S, thorough tier only, best effort)
//! Reclimit: mahf::state::(registry::)?StateRegistry::<.*>::find(_mut)?::<.*>=2
//! Assume: helper inputs satisfy exactly the documented `requires` contracts (indices in bounds, range.start <= range.end <= len, index + chunk <= len); permutation-ness of cycle-crossover parents
use mahf::components::mutation::functional as mf;
use mahf::components::mutation::{de::DEMutation, SwapMutation};
use mahf::components::recombination::functional as rf;
use mahf::components::recombination::{
    ArithmeticCrossover, CycleCrossover, NPointCrossover, OptionalPair, Recombination, UniformCrossover,
};
use mahf::components::Component;
use mahf::state::common::Populations;
use mahf::{Individual, State};

use crate::problems::{obj, BitP, PermP, RealP};
use crate::rng::{draws, sym_random};
use crate::sym;

/// Kani 0.68 cannot compile `let [t, _] = ts;` for element types with drop glue ("sub-array
/// binding", kani#707), which is how `OptionalPair::from_pair` keeps the first child. The
/// harnesses that reach it replace that one function by this equivalent (first child kept).
#[cfg(kani)]
fn from_pair_model<T>(ts: [T; 2], both: bool) -> OptionalPair<T> {
    if both {
        OptionalPair::Both(ts)
    } else {
        let mut it = IntoIterator::into_iter(ts);
        match it.next() {
            Some(t) => OptionalPair::Single(t),
            None => unreachable!(),
        }
    }
}
macro_rules! hs {
    ($name:ident, $uw:expr, $body:expr) => {
        #[cfg_attr(kani, kani::proof)]
        #[cfg_attr(kani, kani::unwind($uw))]
        #[cfg_attr(kani, kani::stub(mahf::components::recombination::OptionalPair::from_pair, from_pair_model))]
        pub fn $name() {
            $body;
            vcover!(true, "reached");
        }
    };
}
macro_rules! h {
    ($name:ident, $uw:expr, $body:expr) => {
        #[cfg_attr(kani, kani::proof)]
        #[cfg_attr(kani, kani::unwind($uw))]
        pub fn $name() {
            $body;
            vcover!(true, "reached");
        }
    };
}

fn sym_arr<const N: usize>() -> [u8; N] {
    let mut a = [0u8; N];
    let mut i = 0;
    while i < N {
        a[i] = sym::u8();
        i += 1;
    }
    a
}
fn same_multiset<const N: usize>(a: &[u8; N], b: &[u8; N]) -> bool {
    let mut i = 0;
    while i < N {
        let (mut ca, mut cb) = (0, 0);
        let mut j = 0;
        while j < N {
            if a[j] == a[i] {
                ca += 1;
            }
            if b[j] == a[i] {
                cb += 1;
            }
            j += 1;
        }
        if ca != cb {
            return false;
        }
        i += 1;
    }
    true
}
fn eq_arr<const N: usize>(a: &[u8; N], b: &[u8; N]) -> bool {
    let mut i = 0;
    while i < N {
        if a[i] != b[i] {
            return false;
        }
        i += 1;
    }
    true
}

// ---- circular swap: the two implementations agree -------------------------------------------------

fn circular<const N: usize, const K: usize>() {
    let orig: [u8; N] = sym_arr();
    let mut idx = [0usize; K];
    let mut i = 0;
    while i < K {
        idx[i] = sym::usize();
        sym::assume(idx[i] < N);
        // the indices to swap are distinct positions (as produced by choose_multiple)
        let mut j = 0;
        while j < i {
            sym::assume(idx[j] != idx[i]);
            j += 1;
        }
        i += 1;
    }
    let (mut a, mut b) = (orig, orig);
    mf::circular_swap(&mut a, &idx);
    mf::circular_swap2(&mut b, &idx);
    assert!(eq_arr(&a, &b), "circular_swap and circular_swap2 agree");
    assert!(same_multiset(&orig, &a), "circular_swap returns a permutation of the same elements");
    // positions not named are untouched
    let mut p = 0;
    while p < N {
        let mut named = false;
        let mut k = 0;
        while k < K {
            named |= idx[k] == p;
            k += 1;
        }
        if !named {
            assert!(a[p] == orig[p], "circular_swap leaves unnamed positions alone");
        }
        p += 1;
    }
}
// @h tier=quick bound="length 4, 2 distinct indices, all contents" unwind=6
h!(h_c13_circular_4_2, 6, circular::<4, 2>());
// @h tier=quick bound="length 4, 3 distinct indices, all contents" unwind=6 cost=2
h!(h_c13_circular_4_3, 6, circular::<4, 3>());
// @h tier=quick bound="length 4, 4 distinct indices, all contents" unwind=6 cost=3
h!(h_c13_circular_4_4, 6, circular::<4, 4>());
// @h tier=thorough bound="length 5, 4 distinct indices, all contents" unwind=7 cost=6 timeout=1500
h!(h_c13_circular_5_4, 7, circular::<5, 4>());

// ---- slice translocation: the two implementations agree ---------------------------------------------

/// Shape (start, chunk, index) is concrete per harness (symbolic ranges make `Vec::drain/splice`
/// and `ptr_rotate` explode); the contents are symbolic. All valid shapes of length 4 are
/// enumerated in the quick tier, length 5 in the thorough tier.
fn translocate<const N: usize>(start: usize, chunk: usize, index: usize) {
    let orig: [u8; N] = sym_arr();
    let end = start + chunk;
    let (mut a, mut b) = (orig, orig);
    mf::translocate_slice(&mut a, start..end, index);
    mf::translocate_slice2(&mut b, start..end, index);
    assert!(eq_arr(&a, &b), "translocate_slice and translocate_slice2 agree");
    assert!(same_multiset(&orig, &a), "translocate_slice returns a permutation of the same elements");
    let mut k = 0;
    while k < chunk {
        assert!(a[index + k] == orig[start + k], "the slice is inserted at the target index");
        k += 1;
    }
}
fn translocate_all4() {
    // every (start, chunk, index) with start < 4, start+chunk <= 4, index < 4, index+chunk <= 4
    let mut start = 0;
    while start < 4 {
        let mut chunk = 0;
        while start + chunk <= 4 {
            let mut index = 0;
            while index < 4 && index + chunk <= 4 {
                translocate::<4>(start, chunk, index);
                index += 1;
            }
            chunk += 1;
        }
        start += 1;
    }
}
// @h tier=quick bound="length 4: all valid (start, slice length, index) shapes incl. slices that end at the last element, all contents" unwind=6 cost=6 timeout=900 mem=10
h!(h_c13_translocate_4_all, 6, translocate_all4());
// @h tier=quick bound="length 5, slice 1..3 moved right into itself (start 1, len 2, index 2), all contents" unwind=7 cost=2
h!(h_c13_translocate_5_s1_c2_i2, 7, translocate::<5>(1, 2, 2));
// @h tier=quick bound="length 5, slice (start 0, len 3, index 1), all contents" unwind=7 cost=2
h!(h_c13_translocate_5_s0_c3_i1, 7, translocate::<5>(0, 3, 1));
// @h tier=quick bound="length 5, slice (start 2, len 2, index 0), all contents" unwind=7 cost=2
h!(h_c13_translocate_5_s2_c2_i0, 7, translocate::<5>(2, 2, 0));
// @h tier=quick bound="length 5, the last element moved to the front (start 4, len 1, index 0)" unwind=7 cost=2
h!(h_c13_translocate_5_last_to_front, 7, translocate::<5>(4, 1, 0));
// @h tier=quick bound="length 5, tail slice (start 3, len 2, index 1)" unwind=7 cost=2
h!(h_c13_translocate_5_tail, 7, translocate::<5>(3, 2, 1));

// ---- crossovers --------------------------------------------------------------------------------------

fn conserved(c1: &[u8], c2: &[u8], p1: &[u8], p2: &[u8], i: usize) -> bool {
    (c1[i] == p1[i] && c2[i] == p2[i]) || (c1[i] == p2[i] && c2[i] == p1[i])
}

fn uniform<const N: usize>() {
    let (p1, p2): ([u8; N], [u8; N]) = (sym_arr(), sym_arr());
    let mut mask = [false; N];
    let mut i = 0;
    while i < N {
        mask[i] = sym::bool();
        i += 1;
    }
    let [c1, c2] = rf::uniform_crossover(&p1, &p2, &mask);
    assert!(c1.len() == N && c2.len() == N, "uniform crossover: children have the parents' length");
    let mut i = 0;
    while i < N {
        assert!(conserved(&c1, &c2, &p1, &p2, i), "uniform crossover: both genes of a position are conserved across the children");
        if mask[i] {
            assert!(c1[i] == p2[i], "uniform crossover: masked positions are exchanged");
        } else {
            assert!(c1[i] == p1[i], "uniform crossover: unmasked positions are kept");
        }
        i += 1;
    }
    std::mem::forget((c1, c2));
}
// @h tier=quick bound="length 3, all contents and masks" unwind=5
h!(h_c13_uniform_3, 5, uniform::<3>());
// @h tier=quick bound="length 1, all contents and masks" unwind=3
h!(h_c13_uniform_1, 3, uniform::<1>());

fn multi_point<const N: usize, const K: usize>() {
    let (p1, p2): ([u8; N], [u8; N]) = (sym_arr(), sym_arr());
    let mut idx = [0usize; K];
    let mut i = 0;
    while i < K {
        idx[i] = sym::usize();
        sym::assume(idx[i] < N);
        i += 1;
    }
    let [c1, c2] = rf::multi_point_crossover(&p1, &p2, &idx);
    assert!(c1.len() == N && c2.len() == N, "n-point crossover: children have the parents' length");
    let mut i = 0;
    while i < N {
        assert!(conserved(&c1, &c2, &p1, &p2, i), "n-point crossover: both genes of a position are conserved across the children");
        // a position is exchanged iff an odd number of cut points lie at or before it
        let mut cuts = 0;
        let mut k = 0;
        while k < K {
            if idx[k] <= i {
                cuts += 1;
            }
            k += 1;
        }
        if cuts % 2 == 1 {
            assert!(c1[i] == p2[i], "n-point crossover: segments after an odd number of cuts are exchanged");
        } else {
            assert!(c1[i] == p1[i], "n-point crossover: segments after an even number of cuts are kept");
        }
        i += 1;
    }
    std::mem::forget((c1, c2));
}
// @h tier=quick bound="length 4, 1 cut point, all contents" unwind=6
h!(h_c13_npoint_4_1, 6, multi_point::<4, 1>());
// @h tier=quick bound="length 4, 2 cut points (any order, may coincide), all contents" unwind=6 cost=2
h!(h_c13_npoint_4_2, 6, multi_point::<4, 2>());
// @h tier=thorough bound="length 5, 3 cut points, all contents" unwind=7 cost=4
h!(h_c13_npoint_5_3, 7, multi_point::<5, 3>());

/// alpha is concrete per harness (a symbolic alpha means four symbolic 64-bit multipliers and did
/// not finish in 5 min); parents are all finite f64.
fn arithmetic(n: usize, alpha: f64) {
    let mut p1 = [0.0; 2];
    let mut p2 = [0.0; 2];
    let al = [alpha; 2];
    let mut i = 0;
    while i < n {
        p1[i] = sym::finite_f64();
        p2[i] = sym::finite_f64();
        i += 1;
    }
    let [c1, c2] = rf::arithmetic_crossover(&p1[..n], &p2[..n], &al[..n]);
    assert!(c1.len() == n && c2.len() == n, "arithmetic crossover: children have the parents' length");
    let mut i = 0;
    while i < n {
        let e1 = al[i] * p1[i] + (1. - al[i]) * p2[i];
        let e2 = al[i] * p2[i] + (1. - al[i]) * p1[i];
        assert!(c1[i].to_bits() == e1.to_bits() || (c1[i].is_nan() && e1.is_nan()), "arithmetic crossover: child 1 is alpha*p1 + (1-alpha)*p2");
        assert!(c2[i].to_bits() == e2.to_bits() || (c2[i].is_nan() && e2.is_nan()), "arithmetic crossover: child 2 is alpha*p2 + (1-alpha)*p1");
        if alpha == 1.0 && p1[i].abs() < 1e300 && p2[i].abs() < 1e300 {
            assert!(c1[i] == p1[i] && c2[i] == p2[i], "alpha = 1 copies the parents");
        }
        if alpha == 0.5 && p1[i].abs() < 1e300 && p2[i].abs() < 1e300 {
            let (lo, hi) = if p1[i] < p2[i] { (p1[i], p2[i]) } else { (p2[i], p1[i]) };
            assert!(c1[i] >= lo && c1[i] <= hi && c2[i] >= lo && c2[i] <= hi, "alpha = 0.5: children lie between the parents");
        }
        i += 1;
    }
    std::mem::forget((c1, c2));
}
// @h tier=thorough bound="length 2, all finite parents, alpha = 0.5" unwind=5 cost=8 timeout=1800 mem=12
h!(h_c13_arithmetic_2_half, 5, arithmetic(2, 0.5));
// @h tier=quick bound="length 1, all finite parents, alpha = 1" unwind=4 cost=2
h!(h_c13_arithmetic_1_one, 4, arithmetic(1, 1.0));
// @h tier=quick bound="length 2, all finite parents, alpha = 0" unwind=5 cost=2
h!(h_c13_arithmetic_2_zero, 5, arithmetic(2, 0.0));
// @h tier=thorough bound="length 1, all finite parents, alpha = 0.25" unwind=4 cost=8 timeout=1800 mem=12
h!(h_c13_arithmetic_1_quarter, 4, arithmetic(1, 0.25));

/// Convexity proper, on a magnitude-bounded region (two symbolic products): min <= c <= max up
/// to a relative slack of 2^-50.
/// @h tier=thorough bound="length 1, |p| <= 2^20, alpha in [0,1]; min <= child <= max with 2^-50 relative slack" unwind=4 cost=9 timeout=1800 mem=12
#[cfg_attr(kani, kani::proof)]
#[cfg_attr(kani, kani::unwind(4))]
pub fn h_c13_arithmetic_convex_1() {
    let (x, y, a) = (sym::finite_f64(), sym::finite_f64(), sym::f64());
    sym::assume(a >= 0.0 && a <= 1.0 && x.abs() <= 1048576.0 && y.abs() <= 1048576.0);
    let [c1, _c2] = rf::arithmetic_crossover(&[x], &[y], &[a]);
    let (lo, hi) = if x < y { (x, y) } else { (y, x) };
    let slack = (hi.abs() + lo.abs() + 1.0) * 8.881784197001252e-16;
    assert!(c1[0] >= lo - slack && c1[0] <= hi + slack, "arithmetic crossover: the child is a convex combination of the parents");
    vcover!(a > 0.0 && a < 1.0 && x != y, "proper mix");
}

fn is_perm<const N: usize>(a: &[u8; N]) -> bool {
    let mut i = 0;
    while i < N {
        if a[i] as usize >= N {
            return false;
        }
        let mut j = 0;
        while j < i {
            if a[j] == a[i] {
                return false;
            }
            j += 1;
        }
        i += 1;
    }
    true
}
fn cycle<const N: usize>() {
    let (p1, p2): ([u8; N], [u8; N]) = (sym_arr(), sym_arr());
    sym::assume(is_perm(&p1) && is_perm(&p2));
    let [c1, c2] = rf::cycle_crossover(&p1, &p2);
    assert!(c1.len() == N && c2.len() == N, "cycle crossover: children have the parents' length");
    let (mut a, mut b) = ([0u8; N], [0u8; N]);
    let mut i = 0;
    while i < N {
        assert!(conserved(&c1, &c2, &p1, &p2, i), "cycle crossover: both genes of a position are conserved across the children");
        a[i] = c1[i];
        b[i] = c2[i];
        i += 1;
    }
    assert!(is_perm(&a) && is_perm(&b), "cycle crossover: children are permutations");
    std::mem::forget((c1, c2));
}
// @h tier=thorough bound="all pairs of permutations of length 3" unwind=6 cost=9 timeout=1800 mem=28
h!(h_c13_cycle_3, 6, cycle::<3>());
// @h tier=thorough bound="all pairs of permutations of length 4" unwind=7 cost=8 timeout=1800 mem=12
h!(h_c13_cycle_4, 7, cycle::<4>());

// ---- constructors accept exactly what their documentation allows -----------------------------------------

/// @h tier=quick bound="every u32 num_swap"
#[cfg_attr(kani, kani::proof)]
#[cfg_attr(kani, kani::unwind(3))]
pub fn h_c13_swap_params() {
    let n = sym::u32();
    let r = SwapMutation::from_params(n);
    assert!(r.is_ok() == (n >= 2), "SwapMutation accepts exactly num_swap >= 2 (\"at least two indices\")");
    vcover!(n == 2, "two");
    std::mem::forget(r);
}
/// @h tier=quick bound="every u32 y, every f64 f"
#[cfg_attr(kani, kani::proof)]
#[cfg_attr(kani, kani::unwind(4))]
pub fn h_c13_demutation_params() {
    let (y, f) = (sym::u32(), sym::f64());
    let r = DEMutation::from_params(y, f);
    assert!(r.is_ok() == ((y == 1 || y == 2) && f >= 0.0 && f <= 2.0), "DEMutation accepts exactly y in 1..=2 and f in [0,2]");
    vcover!(r.is_ok(), "accepted");
    std::mem::forget(r);
}

// ---- recombine() of the components, called directly ------------------------------------------------------

fn uniform_component(both: bool) {
    let pc = sym::f64();
    sym::assume(pc >= 0.0 && pc <= 1.0);
    let op = UniformCrossover::from_params(pc, both);
    let (a, b): ([u8; 2], [u8; 2]) = (sym_arr(), sym_arr());
    let (p1, p2) = (vec![a[0] & 1 == 1, a[1] & 1 == 1], vec![b[0] & 1 == 1, b[1] & 1 == 1]);
    let mut rng = sym_random(5);
    let r = Recombination::<BitP>::recombine(&op, &p1, &p2, &mut rng);
    match r {
        OptionalPair::None => {
            assert!(pc < 1.0, "UniformCrossover: with pc = 1 every pair is recombined");
        }
        OptionalPair::Single(c) => {
            assert!(!both, "UniformCrossover: insert_both = true yields both children");
            assert!(c.len() == 2, "child length");
            assert!((c[0] == p1[0] || c[0] == p2[0]) && (c[1] == p1[1] || c[1] == p2[1]), "each position holds a parental gene");
            std::mem::forget(c);
        }
        OptionalPair::Both([c1, c2]) => {
            assert!(both, "UniformCrossover: insert_both = false yields one child");
            assert!(c1.len() == 2 && c2.len() == 2, "child lengths");
            let mut i = 0;
            while i < 2 {
                assert!((c1[i] == p1[i] && c2[i] == p2[i]) || (c1[i] == p2[i] && c2[i] == p1[i]), "both genes of a position are conserved");
                i += 1;
            }
            std::mem::forget((c1, c2));
        }
    }
    std::mem::forget((p1, p2, rng));
}
// @h tier=quick bound="length 2 bitstrings, any pc in [0,1], insert_both; all draw sequences within 5 draws" unwind=7 cost=4
hs!(h_c13_uniformcomp_both, 7, uniform_component(true));
// @h tier=quick bound="length 2 bitstrings, any pc in [0,1], insert one; all draw sequences within 5 draws" unwind=7 cost=4
hs!(h_c13_uniformcomp_single, 7, uniform_component(false));

// ---- the recombination driver: offspring counts ------------------------------------------------------------

fn driver_counts(n: usize, both: bool) {
    let mut pops = Populations::<BitP>::new();
    let mut v = Vec::with_capacity(4);
    let mut bits = [false; 4];
    let mut i = 0;
    while i < n {
        bits[i] = sym::bool();
        v.push(Individual::new(vec![bits[i]], obj(sym::legal_f64())));
        i += 1;
    }
    pops.push(v);
    let mut s: State<BitP> = State::new();
    s.insert(sym_random(n as u32 + 3));
    s.insert(pops);
    // pc = 1: every pair is recombined
    let r = Component::<BitP>::execute(&UniformCrossover::from_params(1.0, both), &BitP(1), &mut s);
    assert!(r.is_ok(), "recombination succeeds on a valid population");
    {
        let p = s.populations();
        assert!(p.len() == 1, "recombination replaces the top population");
        let want = (n / 2) * (if both { 2 } else { 1 }) + n % 2;
        assert!(p.current().len() == want, "offspring count follows insert-one/insert-both; the odd remainder is copied");
        if n % 2 == 1 {
            let last = &p.current()[want - 1];
            assert!(last.solution().len() == 1 && last.solution()[0] == bits[n - 1], "the unpaired individual is carried over");
        }
    }
    std::mem::forget(s);
}
// @h tier=thorough bound="driver: population of 1 (odd remainder only), insert_both" unwind=6 cost=9 mem=28 timeout=1800
hs!(h_c13_driver_counts_1, 6, driver_counts(1, true));
// @h tier=thorough bound="driver: population of 3, insert one, pc = 1" unwind=8 cost=9 mem=28 timeout=1800
hs!(h_c13_driver_counts_3_single, 8, driver_counts(3, false));
// @h tier=thorough bound="driver: population of 2, insert_both, pc = 1" unwind=7 cost=9 mem=28 timeout=1800
hs!(h_c13_driver_counts_2_both, 7, driver_counts(2, true));

// ---- DE mutation layout guard -----------------------------------------------------------------------------------

fn de_layout(n: usize) {
    let op = match DEMutation::from_params(1, 0.5) {
        Ok(op) => op,
        Err(_) => {
            assert!(false, "y = 1, f = 0.5 are documented legal parameters");
            return;
        }
    };
    let mut v = Vec::with_capacity(4);
    let mut x = [0.0; 4];
    let mut i = 0;
    while i < n {
        x[i] = sym::finite_f64();
        sym::assume(x[i].abs() <= 1048576.0);
        v.push(Individual::<RealP>::new_unevaluated(vec![x[i]]));
        i += 1;
    }
    let mut pops = Populations::<RealP>::new();
    pops.push(v);
    let mut s: State<RealP> = State::new();
    s.insert(pops);
    let r = Component::<RealP>::execute(&op, &RealP::d1(-1.0, 1.0), &mut s);
    if n % 3 == 0 {
        assert!(r.is_ok(), "DEMutation accepts a population in the [2y+1]* layout");
        let p = s.populations();
        assert!(p.current().len() == n / 3, "DEMutation leaves one mutant per group");
        if n == 3 {
            let m = p.current()[0].solution()[0];
            let e = x[0] + 0.5 * (x[1] - x[2]);
            assert!(m.to_bits() == e.to_bits(), "DEMutation: base + f * (s1 - s2)");
        }
    } else {
        assert!(r.is_err(), "DEMutation rejects a population that is not in the [2y+1]* layout");
    }
    std::mem::forget(s);
}
// @h tier=thorough bound="y = 1: population of 3 one-dimensional individuals (valid layout)" unwind=7 cost=9 mem=28 timeout=1800
h!(h_c13_de_layout_3, 7, de_layout(3));
// @h tier=thorough bound="y = 1: population of 2 (invalid layout)" unwind=6 cost=9 mem=28 timeout=1800
h!(h_c13_de_layout_2, 6, de_layout(2));
// @h tier=thorough bound="y = 1: population of 0" unwind=5 cost=9 mem=28 timeout=1800
h!(h_c13_de_layout_0, 5, de_layout(0));

// ---- permutation mutation components through a State (one individual, 3 positions) ----------------------

fn perm_state(budget: u32) -> (State<'static, PermP>, [usize; 3]) {
    // an arbitrary permutation of 0..3
    let a = sym::upto(2) as usize;
    let b = sym::upto(2) as usize;
    sym::assume(a != b);
    let c = 3 - a - b;
    let mut pops = Populations::<PermP>::new();
    pops.push(vec![Individual::new(vec![a, b, c], obj(sym::legal_f64()))]);
    let mut s: State<PermP> = State::new();
    s.insert(sym_random(budget));
    s.insert(pops);
    (s, [a, b, c])
}
fn still_permutation(s: &State<'static, PermP>) {
    let p = s.populations();
    assert!(p.len() == 1 && p.current().len() == 1, "mutation keeps the stack and the population size");
    let v = p.current()[0].solution();
    assert!(v.len() == 3, "mutation keeps the dimension");
    assert!(v[0] < 3 && v[1] < 3 && v[2] < 3 && v[0] != v[1] && v[0] != v[2] && v[1] != v[2], "a permutation operator returns a permutation of the same elements");
}
/// `translocate_slice` with symbolic range and index is intractable (ptr_rotate: 1200+ unwindings
/// before any verdict); its functional correctness is decided by the differential harnesses above
/// for every shape of length 4. In the component harnesses it is replaced by a model that enforces
/// exactly the helper's documented contract (the four `requires`/assert conditions) and leaves the
/// slice as it is — what is decided here is that the COMPONENT calls it with arguments inside
/// that contract and neither errs nor panics otherwise. Counterexamples replay against the real helper.
#[cfg(kani)]
fn translocate_contract_model<D: 'static>(permutation: &mut [D], range: std::ops::Range<usize>, index: usize) {
    assert!(index < permutation.len(), "translocate_slice requires index < len");
    assert!(range.start < permutation.len(), "translocate_slice requires range.start < len");
    assert!(range.end <= permutation.len(), "translocate_slice requires range.end <= len");
    assert!(range.start <= range.end && index + (range.end - range.start) <= permutation.len(), "translocate_slice: moving the slice must stay in bounds");
}
macro_rules! perm_mut {
    ($name:ident, $budget:expr, $uw:expr, $c:expr) => {
        #[cfg_attr(kani, kani::proof)]
        #[cfg_attr(kani, kani::unwind($uw))]
        #[cfg_attr(kani, kani::stub(mahf::components::mutation::functional::translocate_slice, translocate_contract_model))]
        pub fn $name() {
            let (mut s, _orig) = perm_state($budget);
            let c = $c;
            let r = Component::<PermP>::execute(&c, &PermP(3), &mut s);
            assert!(r.is_ok(), "a permutation mutation neither errs nor panics on a valid population");
            still_permutation(&s);
            vcover!(true, "reached");
            std::mem::forget(s);
        }
    };
}
// @h tier=thorough bound="InsertionMutation, 1 individual, 3 positions, all draw sequences within 4 draws; translocate_slice replaced by its contract" unwind=6 cost=9 mem=44 timeout=1500
perm_mut!(h_c13_mut_insertion, 4, 6, mahf::components::mutation::common::InsertionMutation::from_params());
// @h tier=thorough bound="InversionMutation, 1 individual, 3 positions, all draw sequences within 4 draws" unwind=6 cost=9 mem=44 timeout=1500
perm_mut!(h_c13_mut_inversion, 4, 6, mahf::components::mutation::common::InversionMutation::from_params());
// @h tier=thorough bound="TranslocationMutation, 1 individual, 3 positions, all draw sequences within 5 draws; translocate_slice replaced by its contract" unwind=6 cost=9 mem=44 timeout=1800
perm_mut!(h_c13_mut_translocation, 5, 6, mahf::components::mutation::common::TranslocationMutation::from_params());

// Two-position variants (smaller formulas: the three-position harnesses above run out of 44 GB).
fn perm_state2(budget: u32) -> State<'static, PermP> {
    let a = sym::upto(1) as usize;
    let mut pops = Populations::<PermP>::new();
    pops.push(vec![Individual::new(vec![a, 1 - a], obj(sym::legal_f64()))]);
    let mut s: State<PermP> = State::new();
    s.insert(sym_random(budget));
    s.insert(pops);
    s
}
macro_rules! perm_mut2 {
    ($name:ident, $budget:expr, $uw:expr, $c:expr) => {
        #[cfg_attr(kani, kani::proof)]
        #[cfg_attr(kani, kani::unwind($uw))]
        #[cfg_attr(kani, kani::stub(mahf::components::mutation::functional::translocate_slice, translocate_contract_model))]
        pub fn $name() {
            let mut s = perm_state2($budget);
            let c = $c;
            let r = Component::<PermP>::execute(&c, &PermP(2), &mut s);
            assert!(r.is_ok(), "a permutation mutation neither errs nor panics on a valid population");
            {
                let p = s.populations();
                let v = p.current()[0].solution();
                assert!(v.len() == 2 && v[0] < 2 && v[1] < 2 && v[0] != v[1], "a permutation operator returns a permutation of the same elements");
            }
            vcover!(true, "reached");
            std::mem::forget(s);
        }
    };
}
// @h tier=thorough bound="InversionMutation, 1 individual, 2 positions, all draw sequences within 3 draws" unwind=4 cost=8 mem=30 timeout=1200
perm_mut2!(h_c13_mut_inversion_d2, 3, 4, mahf::components::mutation::common::InversionMutation::from_params());
// @h tier=thorough bound="TranslocationMutation, 1 individual, 2 positions, all draw sequences within 4 draws" unwind=4 cost=8 mem=30 timeout=1200
perm_mut2!(h_c13_mut_translocation_d2, 4, 4, mahf::components::mutation::common::TranslocationMutation::from_params());

// ---- rate-carrying mutations: an instance configured with rate 0 runs with rate 0 -------------------
// "leave unchanged whatever a mutation rate of zero excludes" must hold for every history of the
// state the instance is initialised on: `init` installs the instance's own rate even when an earlier
// instance of the same component type left a different (symbolic) rate behind.
macro_rules! rate_reinit {
    ($name:ident, $p:ty, $problem:expr, $t:ty, $c:expr) => {
        #[cfg_attr(kani, kani::proof)]
        #[cfg_attr(kani, kani::unwind(4))]
        pub fn $name() {
            use mahf::components::mutation::MutationRate;
            let mut s: State<$p> = State::new();
            let stale = sym::f64();
            sym::assume(stale >= 0.0 && stale <= 1.0);
            s.insert(MutationRate::<$t>::new(stale));
            let c: $t = $c;
            let problem = $problem;
            assert!(Component::<$p>::init(&c, &problem, &mut s).is_ok(), "init");
            let r = s.borrow::<MutationRate<$t>>().value();
            assert!(matches!(r, Ok(v) if v == 0.0), "an instance configured with mutation rate 0 is initialised to rate 0 whatever an earlier instance left in the state");
            vcover!(stale == 1.0, "a stale full rate");
            std::mem::forget((s, problem));
        }
    };
}
// @h tier=quick bound="PartialRandomBitstring(p=0.5, rm=0) initialised on a state holding any earlier rate in [0,1]" unwind=4 cost=2
rate_reinit!(h_c13_rate_reinit_partial_bitstring, BitP, BitP(2), mahf::components::mutation::PartialRandomBitstring, mahf::components::mutation::PartialRandomBitstring::from_params(0.5, 0.0));
// @h tier=quick bound="BitFlipMutation(rm=0) initialised on a state holding any earlier rate in [0,1]" unwind=4 cost=2
rate_reinit!(h_c13_rate_reinit_bitflip, BitP, BitP(2), mahf::components::mutation::BitFlipMutation, mahf::components::mutation::BitFlipMutation::from_params(0.0));
// @h tier=quick bound="NormalMutation(std_dev=1, rm=0) initialised on a state holding any earlier rate in [0,1]" unwind=4 cost=2
rate_reinit!(h_c13_rate_reinit_normal, RealP, RealP::d1(-1.0, 2.0), mahf::components::mutation::NormalMutation, mahf::components::mutation::NormalMutation::from_params(1.0, 0.0));
// @h tier=quick bound="UniformMutation(bound=1, rm=0) initialised on a state holding any earlier rate in [0,1]" unwind=4 cost=2
rate_reinit!(h_c13_rate_reinit_uniform, RealP, RealP::d1(-1.0, 2.0), mahf::components::mutation::UniformMutation, mahf::components::mutation::UniformMutation::from_params(1.0, 0.0));
// @h tier=quick bound="PartialRandomSpread(rm=0) initialised on a state holding any earlier rate in [0,1]" unwind=4 cost=2
rate_reinit!(h_c13_rate_reinit_spread, RealP, RealP::d1(-1.0, 2.0), mahf::components::mutation::PartialRandomSpread, mahf::components::mutation::PartialRandomSpread::from_params(0.0));
// @h tier=quick bound="ScrambleMutation(rm=0) initialised on a state holding any earlier rate in [0,1]" unwind=4 cost=2
rate_reinit!(h_c13_rate_reinit_scramble, PermP, PermP(3), mahf::components::mutation::ScrambleMutation, mahf::components::mutation::ScrambleMutation::from_params(0.0));
