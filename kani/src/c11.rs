//! c11 — harnesses not written yet.
