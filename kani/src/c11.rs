//! C11 — selection copies members of the source population, in the requested number.
//! Code: mahf::components::selection::common::{All,None,CloneSingle,FullyRandom,RandomWithoutRepetition,RouletteWheel,StochasticUniversalSampling,Tournament,LinearRank,ExponentialRank}::select (called directly)
//! Code: mahf::components::selection::de::{DERand,DEBest,DECurrentToBest}::select, mahf::components::selection::iwo::DeterministicFitnessProportional::select
//! Code: mahf::components::selection::functional::{objective_bounds,proportional_weights,reverse_rank,sample_population_weighted}, mahf::components::selection::selection (driver)
//! Out: populations larger than 3; the distribution of stochastic selections (only support, count and weight direction); objective magnitudes above 2^100 for the weight-based operators (weight sums overflow to inf there)
//! Out: inputs that are unusable but not documented as such: FullyRandom on an empty population, Tournament of size 0, IWO with max_selected < min_selected
//! Reclimit: mahf::state::(registry::)?StateRegistry::<.*>::find(_mut)?::<.*>=2
//! Assume: SymRng draw budget = rejection-free draws + 2 per harness; membership is checked by reference (ptr::eq with an element of the source slice)
use mahf::components::selection::functional as f;
use mahf::components::selection::{
    de::{DEBest, DECurrentToBest, DERand},
    iwo::DeterministicFitnessProportional,
    All, CloneSingle, ExponentialRank, FullyRandom, LinearRank, None as SelectNone, RandomWithoutRepetition, RouletteWheel,
    Selection, StochasticUniversalSampling, Tournament,
};
use mahf::components::Component;
use mahf::state::common::Populations;
use mahf::{Individual, Random, State};

use crate::problems::{obj, TagP};
use crate::rng::{draws, sym_random};
use crate::sym;

type Ind = Individual<TagP>;

fn mk(n: usize, o: &mut [f64; 4], finite: bool) -> Vec<Ind> {
    let mut v = Vec::with_capacity(4);
    let mut i = 0;
    while i < n {
        o[i] = if finite { sym::finite_f64() } else { sym::legal_f64() };
        v.push(Individual::new(i as u8, obj(o[i])));
        i += 1;
    }
    v
}

/// Index of the source element `r` points to, or usize::MAX.
fn index_of(pop: &[Ind], r: &Ind) -> usize {
    let mut i = 0;
    while i < pop.len() {
        if core::ptr::eq(&pop[i], r) {
            return i;
        }
        i += 1;
    }
    usize::MAX
}
fn all_members(pop: &[Ind], sel: &[&Ind]) -> bool {
    let mut k = 0;
    while k < sel.len() {
        if index_of(pop, sel[k]) == usize::MAX {
            return false;
        }
        k += 1;
    }
    true
}
fn count_of(pop: &[Ind], sel: &[&Ind], i: usize) -> usize {
    let mut c = 0;
    let mut k = 0;
    while k < sel.len() {
        if core::ptr::eq(&pop[i], sel[k]) {
            c += 1;
        }
        k += 1;
    }
    c
}
fn untouched(pop: &[Ind], n: usize, o: &[f64; 4]) -> bool {
    if pop.len() != n {
        return false;
    }
    let mut i = 0;
    while i < n {
        if *pop[i].solution() != i as u8 || !pop[i].is_evaluated() || pop[i].objective().value().to_bits() != o[i].to_bits() {
            return false;
        }
        i += 1;
    }
    true
}

macro_rules! h {
    ($name:ident, $uw:expr, $body:expr) => {
        #[cfg_attr(kani, kani::proof)]
        #[cfg_attr(kani, kani::unwind($uw))]
        pub fn $name() {
            $body;
            vcover!(true, "reached");
        }
    };
}

// ---- All / None / CloneSingle --------------------------------------------------------------------

fn all_none(n: usize) {
    let mut o = [0.0; 4];
    let pop = mk(n, &mut o, false);
    let mut rng = sym_random(0);
    match Selection::<TagP>::select(&All::from_params(), &pop, &mut rng) {
        Ok(s) => {
            assert!(s.len() == n, "All selects everything");
            let mut i = 0;
            while i < n {
                assert!(count_of(&pop, &s, i) == 1, "All selects every member exactly once");
                i += 1;
            }
            std::mem::forget(s);
        }
        Err(_) => assert!(false, "All never errs"),
    }
    match Selection::<TagP>::select(&SelectNone::from_params(), &pop, &mut rng) {
        Ok(s) => assert!(s.is_empty(), "None selects nothing"),
        Err(_) => assert!(false, "None never errs"),
    }
    assert!(untouched(&pop, n, &o), "source untouched");
    std::mem::forget((pop, rng));
}
// @h tier=quick bound="population 0" unwind=4
h!(h_c11_all_none_0, 4, all_none(0));
// @h tier=quick bound="population 2, all legal objectives" unwind=5
h!(h_c11_all_none_2, 5, all_none(2));
// @h tier=thorough bound="population 3, all legal objectives" unwind=6
h!(h_c11_all_none_3, 6, all_none(3));

fn clone_single(n: usize, k: u32) {
    let mut o = [0.0; 4];
    let pop = mk(n, &mut o, false);
    let mut rng = sym_random(0);
    let r = Selection::<TagP>::select(&CloneSingle::from_params(k), &pop, &mut rng);
    if n == 1 {
        match r {
            Ok(s) => {
                assert!(s.len() == k as usize, "CloneSingle returns the requested number");
                assert!(count_of(&pop, &s, 0) == k as usize, "CloneSingle returns the single member");
                std::mem::forget(s);
            }
            Err(_) => assert!(false, "CloneSingle succeeds on a single individual"),
        }
    } else {
        assert!(r.is_err(), "CloneSingle: not exactly one individual is an error");
    }
    assert!(untouched(&pop, n, &o), "source untouched");
    std::mem::forget((pop, rng));
}
// @h tier=quick bound="population 1, 3 copies" unwind=6
h!(h_c11_clonesingle_1_3, 6, clone_single(1, 3));
// @h tier=quick bound="population 1, 0 copies" unwind=4
h!(h_c11_clonesingle_1_0, 4, clone_single(1, 0));
// @h tier=quick bound="population 0 (error)" unwind=4
h!(h_c11_clonesingle_0, 4, clone_single(0, 2));
// @h tier=quick bound="population 2 (error)" unwind=5
h!(h_c11_clonesingle_2, 5, clone_single(2, 2));

// ---- FullyRandom / RandomWithoutRepetition -----------------------------------------------------------

fn fully_random(n: usize, k: u32) {
    let mut o = [0.0; 4];
    let pop = mk(n, &mut o, false);
    let mut rng = sym_random(k + 2);
    match Selection::<TagP>::select(&FullyRandom::from_params(k), &pop, &mut rng) {
        Ok(s) => {
            assert!(s.len() == k as usize, "FullyRandom returns the requested number");
            assert!(all_members(&pop, &s), "FullyRandom returns members of the source");
            if n >= 2 && k >= 1 {
                vcover!(core::ptr::eq(s[0], &pop[n - 1]), "last member selectable");
                vcover!(core::ptr::eq(s[0], &pop[0]), "first member selectable");
            }
            std::mem::forget(s);
        }
        Err(_) => assert!(false, "FullyRandom never errs on a non-empty population"),
    }
    assert!(untouched(&pop, n, &o), "source untouched");
    std::mem::forget((pop, rng));
}
// @h tier=quick bound="population 1, 2 draws" unwind=5 dead="last member selectable;first member selectable"
h!(h_c11_fullyrandom_1_2, 5, fully_random(1, 2));
// @h tier=quick bound="population 2, 2 selected, all draw sequences within 4 draws" unwind=6
h!(h_c11_fullyrandom_2_2, 6, fully_random(2, 2));
// @h tier=quick bound="population 3, 1 selected, all draw sequences within 3 draws" unwind=6
h!(h_c11_fullyrandom_3_1, 6, fully_random(3, 1));
// @h tier=quick bound="population 0, 0 selected" unwind=4 dead="last member selectable;first member selectable"
h!(h_c11_fullyrandom_0_0, 4, fully_random(0, 0));
// @h tier=thorough bound="population 3, 3 selected, all draw sequences within 5 draws" unwind=7 cost=3
h!(h_c11_fullyrandom_3_3, 7, fully_random(3, 3));

fn without_repetition(n: usize, k: u32) {
    let mut o = [0.0; 4];
    let pop = mk(n, &mut o, false);
    let mut rng = sym_random(k + 2);
    let r = Selection::<TagP>::select(&RandomWithoutRepetition::from_params(k), &pop, &mut rng);
    if k as usize <= n {
        match r {
            Ok(s) => {
                assert!(s.len() == k as usize, "RandomWithoutRepetition returns the requested number");
                assert!(all_members(&pop, &s), "RandomWithoutRepetition returns members of the source");
                let mut i = 0;
                while i < n {
                    assert!(count_of(&pop, &s, i) <= 1, "RandomWithoutRepetition returns distinct members");
                    i += 1;
                }
                std::mem::forget(s);
            }
            Err(_) => assert!(false, "RandomWithoutRepetition succeeds whenever the population has at least the requested number of individuals"),
        }
    } else {
        assert!(r.is_err(), "RandomWithoutRepetition: too few individuals is an error");
    }
    assert!(untouched(&pop, n, &o), "source untouched");
    std::mem::forget((pop, rng));
}
// @h tier=quick bound="population 2, select 2 (n == len)" unwind=6
h!(h_c11_norepeat_2_2, 6, without_repetition(2, 2));
// @h tier=quick bound="population 1, select 1 (n == len)" unwind=5
h!(h_c11_norepeat_1_1, 5, without_repetition(1, 1));
// @h tier=quick bound="population 2, select 1" unwind=5
h!(h_c11_norepeat_2_1, 5, without_repetition(2, 1));
// @h tier=quick bound="population 3, select 2" unwind=6
h!(h_c11_norepeat_3_2, 6, without_repetition(3, 2));
// @h tier=quick bound="population 2, select 3 (too few)" unwind=7
h!(h_c11_norepeat_2_3, 7, without_repetition(2, 3));
// @h tier=quick bound="population 0, select 0" unwind=4
h!(h_c11_norepeat_0_0, 4, without_repetition(0, 0));
// @h tier=thorough bound="population 3, select 3 (n == len)" unwind=7 cost=3
h!(h_c11_norepeat_3_3, 7, without_repetition(3, 3));

// ---- Tournament ---------------------------------------------------------------------------------------

fn tournament(n: usize, size: u32, k: u32) {
    let mut o = [0.0; 4];
    let pop = mk(n, &mut o, false);
    let mut rng = sym_random(k * size + 2);
    let r = Selection::<TagP>::select(&Tournament::from_params(k, size), &pop, &mut rng);
    if size as usize <= n {
        match r {
            Ok(s) => {
                assert!(s.len() == k as usize, "Tournament returns the requested number");
                assert!(all_members(&pop, &s), "Tournament returns members of the source");
                if size as usize == n {
                    let mut j = 0;
                    while j < s.len() {
                        let w = s[j].objective().value();
                        let mut i = 0;
                        while i < n {
                            assert!(w <= o[i], "a tournament over the whole population returns a best individual");
                            i += 1;
                        }
                        j += 1;
                    }
                }
                std::mem::forget(s);
            }
            Err(_) => assert!(false, "Tournament succeeds when the population is at least the tournament size"),
        }
    } else {
        assert!(r.is_err(), "Tournament: too few individuals is an error");
    }
    assert!(untouched(&pop, n, &o), "source untouched");
    std::mem::forget((pop, rng));
}
// @h tier=quick bound="population 3, tournament size 3, 1 winner; all objectives, all draw sequences within 5 draws" unwind=7 cost=3
h!(h_c11_tournament_3_3_1, 7, tournament(3, 3, 1));
// @h tier=quick bound="population 2, size 2, 2 winners" unwind=8 cost=3
h!(h_c11_tournament_2_2_2, 8, tournament(2, 2, 2));
// @h tier=quick bound="population 3, size 2, 1 winner" unwind=6 cost=2
h!(h_c11_tournament_3_2_1, 6, tournament(3, 2, 1));
// @h tier=quick bound="population 2, size 3 (too few)" unwind=6
h!(h_c11_tournament_2_3_1, 6, tournament(2, 3, 1));
// @h tier=quick bound="population 1, size 1, 0 winners" unwind=4
h!(h_c11_tournament_1_1_0, 4, tournament(1, 1, 0));

// ---- proportional weights, roulette wheel, SUS ------------------------------------------------------------

const BIG: f64 = 1.2676506002282294e30; // 2^100

fn bounded_pop(n: usize, o: &mut [f64; 4]) -> Vec<Ind> {
    let pop = mk(n, o, true);
    let mut i = 0;
    while i < n {
        sym::assume(o[i].abs() <= BIG);
        i += 1;
    }
    pop
}

fn prop_weights(n: usize, normalize: bool) {
    let mut o = [0.0; 4];
    let pop = bounded_pop(n, &mut o);
    let offset = sym::f64();
    sym::assume(offset >= 0.0 && offset <= BIG);
    match f::proportional_weights(&pop, offset, normalize) {
        Some(w) => {
            assert!(n > 0 && w.len() == n, "one weight per individual");
            let mut i = 0;
            while i < n {
                assert!(w[i] >= 0.0, "weights are non-negative numbers");
                let mut j = 0;
                while j < n {
                    if o[i] < o[j] {
                        assert!(w[i] >= w[j], "a better objective never gets a smaller weight");
                    }
                    j += 1;
                }
                i += 1;
            }
            if n >= 2 {
                vcover!(o[0] < o[1] && w[0] > w[1], "strictly better, strictly heavier");
                vcover!(o[0] > 0.0 && o[1] > 0.0, "positive branch");
                vcover!(o[0] < 0.0, "shifted branch");
            }
            std::mem::forget(w);
        }
        None => assert!(n == 0, "finite non-empty populations have weights"),
    }
    std::mem::forget(pop);
}
// @h tier=quick bound="population 0" unwind=4 dead="strictly better, strictly heavier;positive branch;shifted branch"
h!(h_c11_weights_0, 4, prop_weights(0, false));
// @h tier=quick bound="population 1, |o|,offset <= 2^100" unwind=5 dead="strictly better, strictly heavier;positive branch;shifted branch"
h!(h_c11_weights_1, 5, prop_weights(1, false));
// @h tier=thorough bound="population 2, |o|,offset <= 2^100, not normalised" unwind=6 cost=9 timeout=1800 mem=16
h!(h_c11_weights_2, 6, prop_weights(2, false));
// @h tier=thorough bound="population 3, |o|,offset <= 2^100, not normalised" unwind=7 cost=9 timeout=1800 mem=16
h!(h_c11_weights_3, 7, prop_weights(3, false));
// @h tier=thorough bound="population 2, normalised (symbolic division)" unwind=6 cost=6 timeout=1500
h!(h_c11_weights_2_norm, 6, prop_weights(2, true));

/// Infinite objective values are reported as None by the weight function and as Err by the
/// operators that document it (one operator per harness: `which`).
fn infinite_is_err(n: usize, which: u8) {
    let mut o = [0.0; 4];
    let pop = mk(n, &mut o, false);
    let k = sym::upto(n as u8 - 1) as usize;
    sym::assume(o[k] == f64::INFINITY);
    let mut rng = sym_random(0);
    match which {
        0 => assert!(f::proportional_weights(&pop, 1.0, false).is_none(), "proportional_weights: infinite objective gives None"),
        1 => assert!(Selection::<TagP>::select(&RouletteWheel::from_params(1, 1.0), &pop, &mut rng).is_err(), "RouletteWheel: infinite objective values are an error"),
        2 => assert!(Selection::<TagP>::select(&StochasticUniversalSampling::from_params(1, 1.0), &pop, &mut rng).is_err(), "SUS: infinite objective values are an error"),
        _ => assert!(Selection::<TagP>::select(&DeterministicFitnessProportional::from_params(1, 1), &pop, &mut rng).is_err(), "IWO selection: infinite objective values are an error"),
    }
    std::mem::forget((pop, rng));
}
// @h tier=quick bound="population 1 with an infinite objective: proportional_weights" unwind=5
h!(h_c11_infinite_1_weights, 5, infinite_is_err(1, 0));
// @h tier=quick bound="population 1 with an infinite objective: RouletteWheel" unwind=5
h!(h_c11_infinite_1_roulette, 5, infinite_is_err(1, 1));
// @h tier=quick bound="population 1 with an infinite objective: SUS" unwind=5
h!(h_c11_infinite_1_sus, 5, infinite_is_err(1, 2));
// @h tier=quick bound="population 1 with an infinite objective: IWO selection" unwind=5
h!(h_c11_infinite_1_iwo, 5, infinite_is_err(1, 3));
// @h tier=quick bound="population 2, any member infinite, the other any legal value: proportional_weights" unwind=6
h!(h_c11_infinite_2_weights, 6, infinite_is_err(2, 0));
// @h tier=quick bound="population 2, any member infinite, the other any legal value: RouletteWheel" unwind=6
h!(h_c11_infinite_2_roulette, 6, infinite_is_err(2, 1));
// @h tier=quick bound="population 2, any member infinite, the other any legal value: SUS" unwind=6
h!(h_c11_infinite_2_sus, 6, infinite_is_err(2, 2));
// @h tier=quick bound="population 2, any member infinite, the other any legal value: IWO selection" unwind=6
h!(h_c11_infinite_2_iwo, 6, infinite_is_err(2, 3));
// @h tier=thorough bound="population 3, any member infinite: IWO selection" unwind=7
h!(h_c11_infinite_3_iwo, 7, infinite_is_err(3, 3));
// @h tier=thorough bound="population 3, any member infinite: RouletteWheel" unwind=7
h!(h_c11_infinite_3_roulette, 7, infinite_is_err(3, 1));

fn roulette(n: usize, k: u32) {
    let mut o = [0.0; 4];
    let pop = bounded_pop(n, &mut o);
    let offset = sym::f64();
    sym::assume(offset > 0.0 && offset <= BIG);
    let mut rng = sym_random(k + 2);
    match Selection::<TagP>::select(&RouletteWheel::from_params(k, offset), &pop, &mut rng) {
        Ok(s) => {
            assert!(s.len() == k as usize, "RouletteWheel returns the requested number");
            assert!(all_members(&pop, &s), "RouletteWheel returns members of the source");
            std::mem::forget(s);
        }
        Err(_) => assert!(false, "RouletteWheel succeeds on finite objective values"),
    }
    assert!(untouched(&pop, n, &o), "source untouched");
    std::mem::forget((pop, rng));
}
// @h tier=thorough bound="population 1, 2 selected, offset in (0,2^100]" unwind=6 cost=9 timeout=1800 mem=16
h!(h_c11_roulette_1_2, 6, roulette(1, 2));
// @h tier=thorough bound="population 2, 1 selected, |o| <= 2^100, offset in (0,2^100]" unwind=6 cost=9 timeout=1800 mem=16
h!(h_c11_roulette_2_1, 6, roulette(2, 1));
// @h tier=thorough bound="population 3, 2 selected" unwind=7 cost=8 timeout=1500
h!(h_c11_roulette_3_2, 7, roulette(3, 2));

fn sus(n: usize, k: u32, normal_range: bool) {
    let mut o = [0.0; 4];
    let pop = bounded_pop(n, &mut o);
    let offset = sym::f64();
    sym::assume(offset > 0.0 && offset <= BIG);
    if normal_range {
        // weights (max - o + offset) stay normal numbers: offset >= 2^-100
        sym::assume(offset >= 7.888609052210118e-31);
    }
    let mut rng = sym_random(1);
    match Selection::<TagP>::select(&StochasticUniversalSampling::from_params(k, offset), &pop, &mut rng) {
        Ok(s) => {
            assert!(s.len() == k as usize, "SUS returns the requested number");
            assert!(all_members(&pop, &s), "SUS returns members of the source");
            std::mem::forget(s);
        }
        Err(_) => assert!(false, "SUS succeeds on finite objective values"),
    }
    assert!(untouched(&pop, n, &o), "source untouched");
    std::mem::forget((pop, rng));
}
// @h tier=thorough bound="population 1, 1 selected, offset in [2^-100,2^100]" unwind=5 cost=9 timeout=1800 mem=16
h!(h_c11_sus_1_1, 5, sus(1, 1, true));
// @h tier=quick bound="population 1, 1 selected, offset down to the smallest subnormal" unwind=5 cost=2 known=F-C11c
h!(h_c11_sus_1_1_subnormal, 5, sus(1, 1, false));
// @h tier=thorough bound="population 2, 2 selected, |o| <= 2^100" unwind=6 cost=9 timeout=1800 mem=16
h!(h_c11_sus_2_2, 6, sus(2, 2, true));
// @h tier=thorough bound="population 2, 3 selected" unwind=7 cost=8 timeout=1500
h!(h_c11_sus_2_3, 7, sus(2, 3, true));

// ---- rank-based -----------------------------------------------------------------------------------------

fn ranks(n: usize) {
    let mut o = [0.0; 4];
    let pop = mk(n, &mut o, false);
    let r = f::reverse_rank(&pop);
    assert!(r.len() == n, "one rank per individual");
    let mut i = 0;
    while i < n {
        assert!(r[i] >= 1 && r[i] <= n, "ranks are within 1..=len");
        let mut j = 0;
        while j < n {
            assert!((o[i] < o[j]) == (r[i] < r[j]), "lower objective value, lower rank; ties share a rank");
            j += 1;
        }
        i += 1;
    }
    std::mem::forget((pop, r));
}
// @h tier=quick bound="population 0" unwind=4
h!(h_c11_ranks_0, 4, ranks(0));
// @h tier=thorough bound="population 2, all legal objectives" unwind=6 cost=9 timeout=1800 mem=16
h!(h_c11_ranks_2, 6, ranks(2));
// @h tier=thorough bound="population 3, all legal objectives" unwind=8 cost=8 timeout=1500
h!(h_c11_ranks_3, 8, ranks(3));

/// Fixed generator: returns the scripted 64-bit outputs in order (zone representatives).
pub struct ScriptRng;
static mut SCRIPT: [u64; 8] = [0; 8];
static mut SCRIPT_POS: usize = 0;
impl rand::RngCore for ScriptRng {
    fn next_u32(&mut self) -> u32 {
        (self.next_u64() >> 32) as u32
    }
    fn next_u64(&mut self) -> u64 {
        unsafe {
            let v = SCRIPT[SCRIPT_POS];
            SCRIPT_POS += 1;
            v
        }
    }
    fn fill_bytes(&mut self, dest: &mut [u8]) {
        for b in dest {
            *b = 0;
        }
    }
    fn try_fill_bytes(&mut self, dest: &mut [u8]) -> Result<(), rand::Error> {
        self.fill_bytes(dest);
        Ok(())
    }
}
impl rand::SeedableRng for ScriptRng {
    type Seed = [u8; 8];
    fn from_seed(_: Self::Seed) -> Self {
        ScriptRng
    }
    fn seed_from_u64(_: u64) -> Self {
        ScriptRng
    }
}

/// Selection weight direction of a rank-based operator, measured through the real `select`:
/// `reps` equally spaced generator outputs (one per unit of total weight) are fed one at a
/// time; the number of outputs that select individual i is its share of the generator's
/// output space. A better individual must not get a smaller share.
fn rank_direction<S: Selection<TagP>>(op: &S, n: usize, reps: usize) {
    let mut o = [0.0; 4];
    let pop = mk(n, &mut o, false);
    // strict order, symbolic permutation
    let mut i = 0;
    while i < n {
        let mut j = 0;
        while j < i {
            sym::assume(o[i] != o[j]);
            j += 1;
        }
        i += 1;
    }
    let mut share = [0usize; 4];
    let mut k = 0;
    while k < reps {
        // representative of the k-th of `reps` equal zones of the 64-bit output space
        let v = ((k as u128 * 2 + 1) * (1u128 << 63) / reps as u128) as u64;
        unsafe {
            SCRIPT[0] = v;
            SCRIPT_POS = 0;
        }
        let mut rng = Random::with_rng::<ScriptRng>(0);
        match op.select(&pop, &mut rng) {
            Ok(s) => {
                assert!(s.len() == 1, "rank selection returns the requested number");
                let idx = index_of(&pop, s[0]);
                assert!(idx < n, "rank selection returns a member of the source");
                share[idx] += 1;
                std::mem::forget(s);
            }
            Err(_) => assert!(false, "rank selection succeeds on a non-empty population"),
        }
        assert!(unsafe { SCRIPT_POS } == 1, "exactly one generator output per selection (no rejection at the representative)");
        std::mem::forget(rng);
        k += 1;
    }
    let mut i = 0;
    while i < n {
        let mut j = 0;
        while j < n {
            if o[i] < o[j] {
                assert!(share[i] >= share[j], "a better individual never gets a smaller share of the selection weight");
            }
            j += 1;
        }
        i += 1;
    }
    std::mem::forget(pop);
}
// @h tier=thorough bound="population 2, distinct objectives (any order), 3 zone representatives" unwind=6 cost=9 timeout=1800 mem=16
h!(h_c11_linearrank_direction_2, 6, rank_direction(&LinearRank::from_params(1), 2, 3));
// @h tier=thorough bound="population 3, distinct objectives (any order), 6 zone representatives" unwind=9 cost=9 timeout=1800
h!(h_c11_linearrank_direction_3, 9, rank_direction(&LinearRank::from_params(1), 3, 6));

#[cfg(kani)]
fn powi_model(b: f64, n: i32) -> f64 {
    // exact for the small non-negative exponents used here
    let mut r = 1.0;
    let mut i = 0;
    while i < n {
        r *= b;
        i += 1;
    }
    r
}
/// @h tier=thorough bound="population 2, distinct objectives (any order), base 0.5, 3 zone representatives" unwind=6 cost=9 timeout=1800 mem=16
#[cfg_attr(kani, kani::proof)]
#[cfg_attr(kani, kani::unwind(6))]
#[cfg_attr(kani, kani::stub(f64::powi, powi_model))]
pub fn h_c11_exprank_direction_2() {
    match ExponentialRank::from_params(1, 0.5) {
        Ok(op) => rank_direction(&op, 2, 3),
        Err(_) => assert!(false, "base 0.5 is a documented legal base"),
    }
    vcover!(true, "reached");
}

// ---- DE selections ----------------------------------------------------------------------------------------

fn de_rand(n: usize) {
    let mut o = [0.0; 4];
    let pop = mk(n, &mut o, false);
    let mut rng = sym_random(3 * n as u32 + 2);
    let op = match DERand::from_params(1) {
        Ok(op) => op,
        Err(_) => {
            assert!(false, "y = 1 is legal");
            return;
        }
    };
    match Selection::<TagP>::select(&op, &pop, &mut rng) {
        Ok(s) => {
            assert!(s.len() == 3 * n, "DERand emits 2y+1 individuals per population member");
            assert!(all_members(&pop, &s), "DERand returns members of the source");
            std::mem::forget(s);
        }
        Err(_) => assert!(false, "DERand never errs"),
    }
    assert!(untouched(&pop, n, &o), "source untouched");
    std::mem::forget((pop, rng));
}
// @h tier=thorough bound="population 3, y = 1, all draw sequences within 11 draws" unwind=13 cost=9 timeout=1800 mem=12
h!(h_c11_derand_3, 13, de_rand(3));
// @h tier=quick bound="population 0, y = 1" unwind=4
h!(h_c11_derand_0, 4, de_rand(0));

fn de_best(n: usize) {
    let mut o = [0.0; 4];
    let pop = mk(n, &mut o, false);
    let mut rng = sym_random(2 * n as u32 + 2);
    let op = match DEBest::from_params(1) {
        Ok(op) => op,
        Err(_) => {
            assert!(false, "y = 1 is legal");
            return;
        }
    };
    let r = Selection::<TagP>::select(&op, &pop, &mut rng);
    if n == 0 {
        assert!(r.is_err(), "DEBest: empty population is an error");
    } else {
        match r {
            Ok(s) => {
                assert!(s.len() == 3 * n, "DEBest emits 2y+1 individuals per population member");
                assert!(all_members(&pop, &s), "DEBest returns members of the source");
                let mut g = 0;
                while g < n {
                    let b = s[3 * g].objective().value();
                    let mut i = 0;
                    while i < n {
                        assert!(b <= o[i], "DEBest: each group starts with a best individual");
                        i += 1;
                    }
                    g += 1;
                }
                std::mem::forget(s);
            }
            Err(_) => assert!(false, "DEBest succeeds on a population of at least 2y+1"),
        }
    }
    assert!(untouched(&pop, n, &o), "source untouched");
    std::mem::forget((pop, rng));
}
// @h tier=quick bound="population 0 (error)" unwind=4
h!(h_c11_debest_0, 4, de_best(0));
// @h tier=thorough bound="population 3, y = 1, all draw sequences within 8 draws" unwind=10 cost=9 timeout=1800 mem=12
h!(h_c11_debest_3, 10, de_best(3));

fn de_current_to_best(n: usize) {
    let mut o = [0.0; 4];
    let pop = mk(n, &mut o, false);
    let mut rng = sym_random(n as u32 + 2);
    let op = match DECurrentToBest::from_params(1) {
        Ok(op) => op,
        Err(_) => {
            assert!(false, "y = 1 is legal");
            return;
        }
    };
    let r = Selection::<TagP>::select(&op, &pop, &mut rng);
    if n == 0 {
        assert!(r.is_err(), "DECurrentToBest: empty population is an error");
    } else {
        match r {
            Ok(s) => {
                assert!(s.len() == 3 * n, "DECurrentToBest emits 2y+1 individuals per population member");
                assert!(all_members(&pop, &s), "DECurrentToBest returns members of the source");
                let mut g = 0;
                while g < n {
                    assert!(core::ptr::eq(s[3 * g], &pop[g]), "DECurrentToBest: each group starts with the current individual");
                    let b = s[3 * g + 1].objective().value();
                    let mut i = 0;
                    while i < n {
                        assert!(b <= o[i], "DECurrentToBest: then a best individual");
                        i += 1;
                    }
                    assert!(!core::ptr::eq(s[3 * g + 2], &pop[g]), "DECurrentToBest: the random one is not the current individual");
                    g += 1;
                }
                std::mem::forget(s);
            }
            Err(_) => assert!(false, "DECurrentToBest succeeds on a population of at least 2y+1"),
        }
    }
    assert!(untouched(&pop, n, &o), "source untouched");
    std::mem::forget((pop, rng));
}
// @h tier=quick bound="population 0 (error)" unwind=4
h!(h_c11_decurrenttobest_0, 4, de_current_to_best(0));
// @h tier=thorough bound="population 3 (unique individuals), y = 1, all draw sequences within 5 draws" unwind=8 cost=9 timeout=1800 mem=12
h!(h_c11_decurrenttobest_3, 8, de_current_to_best(3));

// ---- IWO ----------------------------------------------------------------------------------------------------

fn iwo(n: usize, lo: u32, hi: u32) {
    let mut o = [0.0; 4];
    let pop = mk(n, &mut o, true);
    let mut rng = sym_random(0);
    match Selection::<TagP>::select(&DeterministicFitnessProportional::from_params(lo, hi), &pop, &mut rng) {
        Ok(s) => {
            assert!(n > 0, "IWO selection: empty population is an error");
            assert!(all_members(&pop, &s), "IWO selection returns members of the source");
            let mut total = 0;
            let mut i = 0;
            while i < n {
                let ci = count_of(&pop, &s, i);
                total += ci;
                assert!(ci >= lo as usize && ci <= hi as usize, "each individual is selected between min_selected and max_selected times");
                let (mut is_best, mut is_worst) = (true, true);
                let mut j = 0;
                while j < n {
                    if o[j] < o[i] {
                        is_best = false;
                        assert!(count_of(&pop, &s, j) >= ci, "a better individual is never selected less often");
                    }
                    if o[j] > o[i] {
                        is_worst = false;
                    }
                    j += 1;
                }
                if is_best && !is_worst {
                    assert!(ci == hi as usize, "the best individual is selected max_selected times");
                }
                if is_worst && !is_best {
                    assert!(ci == lo as usize, "the worst individual is selected min_selected times");
                }
                i += 1;
            }
            assert!(total == s.len(), "nothing else is selected");
            std::mem::forget(s);
        }
        Err(_) => assert!(n == 0, "IWO selection succeeds on finite objective values"),
    }
    assert!(untouched(&pop, n, &o), "source untouched");
    std::mem::forget((pop, rng));
}
// @h tier=quick bound="population 0" unwind=4
h!(h_c11_iwo_0, 4, iwo(0, 1, 2));
// @h tier=quick bound="population 1, min 1 max 3" unwind=6 cost=2
h!(h_c11_iwo_1, 6, iwo(1, 1, 3));
// @h tier=thorough bound="population 2, all finite objectives, min 0 max 2" unwind=6 cost=9 timeout=1800 mem=16
h!(h_c11_iwo_2, 6, iwo(2, 0, 2));
// @h tier=thorough bound="population 3, all finite objectives, min 1 max 3" unwind=8 cost=9 timeout=1800 mem=12
h!(h_c11_iwo_3, 8, iwo(3, 1, 3));

// ---- driver -------------------------------------------------------------------------------------------------

fn driver_state(n: usize, o: &mut [f64; 4], budget: u32) -> State<'static, TagP> {
    let mut pops = Populations::<TagP>::new();
    pops.push(mk(n, o, false));
    let mut s: State<TagP> = State::new();
    s.insert(sym_random(budget));
    s.insert(pops);
    s
}

fn driver_all(n: usize) {
    let mut o = [0.0; 4];
    let mut s = driver_state(n, &mut o, 0);
    let r = Component::<TagP>::execute(&All::from_params(), &TagP, &mut s);
    assert!(r.is_ok(), "driver: All succeeds");
    {
        let p = s.populations();
        assert!(p.len() == 2, "driver pushes exactly one new population");
        assert!(untouched(p.peek(1), n, &o), "driver: source population untouched");
        assert!(untouched(p.current(), n, &o), "driver: pushed individuals are exact copies (solution and objective)");
    }
    std::mem::forget(s);
}
// @h tier=thorough bound="driver with All on a population of 2" unwind=6 cost=9 timeout=1800 mem=16
h!(h_c11_driver_all_2, 6, driver_all(2));

fn driver_clonesingle(n: usize) {
    let mut o = [0.0; 4];
    let mut s = driver_state(n, &mut o, 0);
    let r = Component::<TagP>::execute(&CloneSingle::from_params(2), &TagP, &mut s);
    if n == 1 {
        assert!(r.is_ok(), "driver: CloneSingle succeeds");
        let p = s.populations();
        assert!(p.len() == 2 && p.current().len() == 2, "driver pushes one population of the requested size");
        assert!(untouched(p.peek(1), n, &o), "driver: source population untouched");
        let c = p.current();
        assert!(*c[0].solution() == 0 && *c[1].solution() == 0 && c[1].objective().value().to_bits() == o[0].to_bits(), "copies of the single individual");
    } else {
        assert!(r.is_err(), "driver: the selection error is propagated");
        let p = s.populations();
        assert!(p.len() == 1 && untouched(p.current(), n, &o), "driver: nothing pushed on error, source untouched");
    }
    std::mem::forget(s);
}
// @h tier=quick bound="driver with CloneSingle on a population of 1" unwind=6 cost=4
h!(h_c11_driver_clonesingle_1, 6, driver_clonesingle(1));
// @h tier=quick bound="driver with CloneSingle on a population of 2 (error)" unwind=6 cost=4
h!(h_c11_driver_clonesingle_2, 6, driver_clonesingle(2));

// @h tier=thorough bound="driver with All on a population of 1" unwind=5 cost=9 timeout=1800 mem=16
h!(h_c11_driver_all_1, 5, driver_all(1));

// `reverse_rank` (itertools sorted_by_key + group_by + collect_vec) is intractable for CBMC even
// on concrete data (path explosion inside itertools' GroupBy buffer; 25 min / 7 GB without a
// verdict). For the *direction* clause the rank function is therefore replaced by a reference
// model with the documented meaning (dense ranks, lowest objective value = rank 1, ties share
// a rank) through `#[kani::stub]`; the operator's own code — what it does with the ranks — is
// the real code, and every counterexample is replayed natively with the real `reverse_rank`.
#[cfg(kani)]
fn reverse_rank_model<P: mahf::problems::SingleObjectiveProblem>(population: &[Individual<P>]) -> Vec<usize> {
    let n = population.len();
    let mut out = Vec::with_capacity(4);
    let mut i = 0;
    while i < n {
        let oi = population[i].objective().value();
        let mut rank = 1;
        let mut j = 0;
        while j < n {
            let oj = population[j].objective().value();
            if oj < oi {
                // count each distinct smaller value once
                let mut first = true;
                let mut k = 0;
                while k < j {
                    if population[k].objective().value() == oj {
                        first = false;
                    }
                    k += 1;
                }
                if first {
                    rank += 1;
                }
            }
            j += 1;
        }
        out.push(rank);
        i += 1;
    }
    out
}

/// @h tier=quick bound="population 2, all distinct legal objectives (any order), 3 zone representatives; reverse_rank stubbed by its specification" unwind=6 cost=4
#[cfg_attr(kani, kani::proof)]
#[cfg_attr(kani, kani::unwind(6))]
#[cfg_attr(kani, kani::stub(mahf::components::selection::functional::reverse_rank, reverse_rank_model))]
pub fn h_c11_linearrank_direction_2s() {
    rank_direction(&LinearRank::from_params(1), 2, 3);
    vcover!(true, "reached");
}
/// @h tier=quick bound="population 3, all distinct legal objectives (any order), 6 zone representatives; reverse_rank stubbed by its specification" unwind=9 cost=6 timeout=600
#[cfg_attr(kani, kani::proof)]
#[cfg_attr(kani, kani::unwind(9))]
#[cfg_attr(kani, kani::stub(mahf::components::selection::functional::reverse_rank, reverse_rank_model))]
pub fn h_c11_linearrank_direction_3s() {
    rank_direction(&LinearRank::from_params(1), 3, 6);
    vcover!(true, "reached");
}
/// @h tier=quick bound="population 2, all distinct legal objectives (any order), base 0.5, 3 zone representatives; reverse_rank stubbed by its specification, powi by repeated multiplication" unwind=6 cost=4
#[cfg_attr(kani, kani::proof)]
#[cfg_attr(kani, kani::unwind(6))]
#[cfg_attr(kani, kani::stub(f64::powi, powi_model))]
#[cfg_attr(kani, kani::stub(mahf::components::selection::functional::reverse_rank, reverse_rank_model))]
pub fn h_c11_exprank_direction_2s() {
    match ExponentialRank::from_params(1, 0.5) {
        Ok(op) => rank_direction(&op, 2, 3),
        Err(_) => assert!(false, "base 0.5 is a documented legal base"),
    }
    vcover!(true, "reached");
}

fn driver_none(n: usize) {
    let mut o = [0.0; 4];
    let mut s = driver_state(n, &mut o, 0);
    let r = Component::<TagP>::execute(&SelectNone::from_params(), &TagP, &mut s);
    assert!(r.is_ok(), "driver: None succeeds");
    {
        let p = s.populations();
        assert!(p.len() == 2, "driver pushes exactly one new population");
        assert!(untouched(p.peek(1), n, &o), "driver: source population untouched");
        assert!(p.current().is_empty(), "driver+None: the pushed population is empty");
    }
    std::mem::forget(s);
}
// @h tier=quick bound="driver with None on a population of 2" unwind=6 cost=4
h!(h_c11_driver_none_2, 6, driver_none(2));
