//! c05 — harnesses not written yet.
