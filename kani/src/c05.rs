//! C05 — objective values are never stale: evaluated individuals carry f(solution).
//! Code: mahf::problems::individual::Individual::{new,new_unevaluated,evaluate_with,set_objective,solution,solution_mut,into_solution,is_evaluated,get_objective,objective,clone,clone_from,eq}
//! Code: mahf::population::{AsSolutionsMut,IntoSolutions,IntoIndividuals,IntoSingle,IntoSingleRef,BestIndividual}, mahf::state::common::BestIndividual::update
//! Out: the per-component preservation step is decided in the quick tier for six shipped components over a generic encoding (CloneSingle, KeepBetterAtIndex, BestIndividualUpdate, ClearPopulation, RotatePopulations, SA acceptance); All/Merge/MuPlusLambda through a State (collect/sort on lengths the engine cannot fold) and every component with a Vec encoding are thorough-tier best effort; composition over whole runs is an induction over C03, not a solver query
//! Reclimit: mahf::state::(registry::)?StateRegistry::<.*>::find(_mut)?::<.*>=2
//! Assume: objective function = symbolic table of 4 legal values over (solution & 3); set_objective is only called with f(solution) (its documented contract); one arbitrary public-API operation from an arbitrary consistent individual (inductive step)
use mahf::population::{AsSolutionsMut, BestIndividual as BestOf, IntoIndividuals, IntoSingle, IntoSingleRef, IntoSolutions};
use mahf::state::common::BestIndividual;
use mahf::Individual;

use crate::problems::{obj, TagP};
use crate::sym;

type Ind = Individual<TagP>;

fn table() -> [f64; 4] {
    [sym::legal_f64(), sym::legal_f64(), sym::legal_f64(), sym::legal_f64()]
}
fn f(t: &[f64; 4], sol: u8) -> f64 {
    t[(sol & 3) as usize]
}
/// An arbitrary individual that satisfies the invariant.
fn any_ind(t: &[f64; 4]) -> Ind {
    let sol = sym::u8();
    if sym::bool() {
        Individual::new(sol, obj(f(t, sol)))
    } else {
        Individual::new_unevaluated(sol)
    }
}
fn consistent(i: &Ind, t: &[f64; 4]) -> bool {
    match i.get_objective() {
        Some(o) => o.value().to_bits() == f(t, *i.solution()).to_bits(),
        None => !i.is_evaluated(),
    }
}

/// @h tier=quick bound="one arbitrary operation of the Individual API on an arbitrary consistent individual; objective table symbolic" unwind=4 cost=3
#[cfg_attr(kani, kani::proof)]
#[cfg_attr(kani, kani::unwind(4))]
pub fn h_c05_individual_step() {
    let t = table();
    let mut a = any_ind(&t);
    assert!(consistent(&a, &t), "pre-state satisfies the invariant");
    let was_evaluated = a.is_evaluated();
    let old_sol = *a.solution();
    let x = sym::u8();
    match sym::upto(6) {
        0 => {
            *a.solution_mut() = x;
            assert!(!a.is_evaluated(), "every access that can change the solution leaves the individual unevaluated");
            assert!(*a.solution() == x, "the write lands");
        }
        1 => {
            // even a mutable access that writes nothing invalidates
            let _ = a.solution_mut();
            assert!(!a.is_evaluated() && *a.solution() == old_sol, "solution_mut alone invalidates and keeps the solution");
        }
        2 => {
            let r = a.set_objective(obj(f(&t, old_sol)));
            assert!(r == was_evaluated, "set_objective reports whether the individual was evaluated before");
            assert!(a.is_evaluated(), "set_objective evaluates");
        }
        3 => {
            a.evaluate_with(|s| obj(f(&t, *s)));
            assert!(a.is_evaluated() && *a.solution() == old_sol, "evaluate_with evaluates and keeps the solution");
        }
        4 => {
            let b = a.clone();
            assert!(b == a && consistent(&b, &t), "clone keeps solution and objective together");
            assert!(b.is_evaluated() == was_evaluated && *b.solution() == old_sol, "clone is exact");
        }
        5 => {
            let s = a.clone().into_solution();
            assert!(s == old_sol, "into_solution returns the solution");
        }
        _ => {
            // reading never changes anything
            let _ = (a.solution(), a.get_objective(), a.is_evaluated());
            assert!(a.is_evaluated() == was_evaluated && *a.solution() == old_sol, "reads do not modify");
        }
    }
    assert!(consistent(&a, &t), "an individual never reports an objective value that does not belong to its current solution");
    vcover!(was_evaluated && !a.is_evaluated(), "invalidated");
    vcover!(!was_evaluated && a.is_evaluated(), "evaluated");
}

/// Overwriting one individual with another (`clone_from`, as Vec::clone_from / clone_from_slice
/// do element-wise) keeps solution and objective together for every combination of evaluated /
/// unevaluated source and target.
/// @h tier=quick bound="clone_from between two arbitrary consistent individuals" unwind=4 cost=3
#[cfg_attr(kani, kani::proof)]
#[cfg_attr(kani, kani::unwind(4))]
pub fn h_c05_clone_from() {
    let t = table();
    let mut a = any_ind(&t);
    let b = any_ind(&t);
    a.clone_from(&b);
    assert!(*a.solution() == *b.solution(), "clone_from copies the solution");
    assert!(a.is_evaluated() == b.is_evaluated(), "clone_from copies the evaluation status");
    assert!(a == b && consistent(&a, &t), "copying keeps solution and objective together");
    vcover!(!b.is_evaluated(), "unevaluated source");
    vcover!(b.is_evaluated(), "evaluated source");
}

/// @h tier=quick bound="equality of two arbitrary individuals is equality of solution and objective" unwind=4 cost=2
#[cfg_attr(kani, kani::proof)]
#[cfg_attr(kani, kani::unwind(4))]
pub fn h_c05_equality() {
    let t = table();
    let (a, b) = (any_ind(&t), any_ind(&t));
    let same_obj = match (a.get_objective(), b.get_objective()) {
        (Some(x), Some(y)) => x.value() == y.value(),
        (None, None) => true,
        _ => false,
    };
    assert!((a == b) == (*a.solution() == *b.solution() && same_obj), "individuals are equal iff solution and objective are");
    vcover!(a == b, "equal");
    vcover!(a != b && *a.solution() == *b.solution(), "same solution, different status");
}

/// @h tier=quick bound="population helpers on 2 arbitrary consistent individuals: as_solutions_mut, into_solutions, into_individuals" unwind=5 cost=4
#[cfg_attr(kani, kani::proof)]
#[cfg_attr(kani, kani::unwind(5))]
pub fn h_c05_population_helpers() {
    let t = table();
    let mut pop = vec![any_ind(&t), any_ind(&t)];
    let (s0, s1) = (*pop[0].solution(), *pop[1].solution());
    let x = sym::u8();
    {
        let mut sols = pop.as_solutions_mut();
        assert!(sols.len() == 2, "one mutable solution per individual");
        *sols[0] = x;
        std::mem::forget(sols);
    }
    assert!(!pop[0].is_evaluated() && !pop[1].is_evaluated(), "handing out mutable solutions leaves every individual unevaluated");
    assert!(*pop[0].solution() == x && *pop[1].solution() == s1, "writes land, the rest is kept");
    let sols = pop.into_solutions();
    assert!(sols.len() == 2 && sols[0] == x && sols[1] == s1, "into_solutions keeps order and content");
    let inds: Vec<Ind> = sols.into_individuals();
    assert!(inds.len() == 2 && !inds[0].is_evaluated() && !inds[1].is_evaluated(), "individuals made from bare solutions are unevaluated");
    assert!(*inds[0].solution() == x && *inds[1].solution() == s1, "solutions kept");
    vcover!(s0 != x, "changed");
    std::mem::forget(inds);
}

/// @h tier=quick bound="into_single / into_single_ref / best_individual on populations of 0..2 arbitrary evaluated individuals" unwind=5 cost=4
#[cfg_attr(kani, kani::proof)]
#[cfg_attr(kani, kani::unwind(5))]
pub fn h_c05_single_and_best() {
    let t = table();
    let n = sym::upto(2) as usize;
    let (a, b) = (sym::u8(), sym::u8());
    let mut pop: Vec<Ind> = Vec::with_capacity(2);
    if n >= 1 {
        pop.push(Individual::new(a, obj(f(&t, a))));
    }
    if n >= 2 {
        pop.push(Individual::new(b, obj(f(&t, b))));
    }
    match pop.best_individual() {
        Some(best) => {
            assert!(n >= 1 && consistent(best, &t), "the best individual is a consistent member");
            assert!(best.objective().value() <= f(&t, a) && (n < 2 || best.objective().value() <= f(&t, b)), "no member is better than the best individual");
        }
        None => assert!(n == 0, "only an empty population has no best individual"),
    }
    let r = (&pop).into_single_ref();
    assert!(r.is_ok() == (n == 1), "into_single_ref succeeds exactly for one individual");
    if let Ok(i) = r {
        assert!(*i.solution() == a && consistent(i, &t), "the single individual, unchanged");
    }
    let r = pop.into_single();
    assert!(r.is_ok() == (n == 1), "into_single succeeds exactly for one individual");
    if let Ok(i) = r {
        assert!(*i.solution() == a && consistent(&i, &t), "moving keeps solution and objective together");
    }
    vcover!(n == 2, "two");
}

/// @h tier=quick bound="BestIndividual::update with an arbitrary evaluated candidate from an arbitrary memory: the memory stays consistent" unwind=4 cost=3
#[cfg_attr(kani, kani::proof)]
#[cfg_attr(kani, kani::unwind(4))]
pub fn h_c05_best_memory_consistent() {
    let t = table();
    let mut m = BestIndividual::<TagP>::new();
    let (p, c) = (sym::u8(), sym::u8());
    if sym::bool() {
        m.update(&Individual::new(p, obj(f(&t, p))));
    }
    let cand = Individual::new(c, obj(f(&t, c)));
    m.update(&cand);
    match &*m {
        Some(i) => assert!(consistent(i, &t) && i.is_evaluated(), "the best-so-far memory holds a solution together with ITS objective value"),
        None => assert!(false, "the memory is filled after an update"),
    }
    vcover!(true, "reached");
}

// ---- layer 2 (thorough): a shipped driver over Vec-encoded individuals preserves the invariant ------------

#[cfg(kani)]
fn from_pair_model<T>(ts: [T; 2], both: bool) -> mahf::components::recombination::OptionalPair<T> {
    use mahf::components::recombination::OptionalPair;
    if both {
        OptionalPair::Both(ts)
    } else {
        let mut it = IntoIterator::into_iter(ts);
        match it.next() {
            Some(t) => OptionalPair::Single(t),
            None => unreachable!(),
        }
    }
}

/// Recombination of an odd population with insert_both = false and pc = 1: whatever the driver
/// does with the objective values of recombined or passed-through individuals, none of them may
/// report a value that does not belong to its solution (f = table over the single bit).
/// @h tier=thorough bound="UniformCrossover(pc = 1, insert one) on 3 evaluated one-bit individuals; objective table symbolic" unwind=8 cost=9 mem=40 timeout=3600
#[cfg_attr(kani, kani::proof)]
#[cfg_attr(kani, kani::unwind(8))]
#[cfg_attr(kani, kani::stub(mahf::components::recombination::OptionalPair::from_pair, from_pair_model))]
pub fn h_c05_recombination_driver_3() {
    use mahf::components::recombination::UniformCrossover;
    use mahf::components::Component;
    use mahf::state::common::Populations;
    use mahf::State;
    use crate::problems::BitP;
    let t = [sym::legal_f64(), sym::legal_f64()];
    let fb = |b: bool| if b { t[1] } else { t[0] };
    let bits = [sym::bool(), sym::bool(), sym::bool()];
    let mut pops = Populations::<BitP>::new();
    pops.push(vec![
        Individual::new(vec![bits[0]], obj(fb(bits[0]))),
        Individual::new(vec![bits[1]], obj(fb(bits[1]))),
        Individual::new(vec![bits[2]], obj(fb(bits[2]))),
    ]);
    let mut s: State<BitP> = State::new();
    s.insert(crate::rng::sym_random(6));
    s.insert(pops);
    let r = Component::<BitP>::execute(&UniformCrossover::from_params(1.0, false), &BitP(1), &mut s);
    assert!(r.is_ok(), "recombination succeeds");
    {
        let p = s.populations();
        let cur = p.current();
        assert!(cur.len() == 2, "one child for the pair plus the unpaired individual");
        let mut i = 0;
        while i < cur.len() {
            if let Some(o) = cur[i].get_objective() {
                assert!(cur[i].solution().len() == 1 && o.value().to_bits() == fb(cur[i].solution()[0]).to_bits(), "an evaluated individual carries the value the objective function assigns to ITS solution");
            }
            i += 1;
        }
    }
    vcover!(true, "reached");
    std::mem::forget(s);
}

// ---- layer 2 (quick): shipped components over a generic encoding preserve the invariant -----------------
//
// Pre-state: stack of populations whose individuals are arbitrary but consistent (evaluated =>
// objective == f(solution)); one real `execute`; afterwards every individual anywhere in the
// state (stack, best-so-far memory) is consistent again. Components with Vec encodings are out
// (class S, see module header).

pub mod layer2 {
    use super::*;
    use mahf::components::evaluation::BestIndividualUpdate;
    use mahf::components::replacement::{sa::ExponentialAnnealingAcceptance, sa::Temperature, KeepBetterAtIndex, Merge, MuPlusLambda};
    use mahf::components::selection::{All, CloneSingle};
    use mahf::components::utils::populations::{ClearPopulation, RotatePopulations};
    use mahf::components::Component;
    use mahf::state::common::{BestIndividual, Populations};
    use mahf::State;

    /// evaluated individual with objective f(solution)
    fn ev(t: &[f64; 4]) -> Ind {
        let s = sym::u8();
        Individual::new(s, obj(f(t, s)))
    }
    fn all_consistent(s: &State<'static, TagP>, t: &[f64; 4], max_h: usize) {
        let p = s.populations();
        let mut d = 0;
        while d < max_h {
            if let Some(pop) = p.try_peek(d) {
                let mut i = 0;
                while i < pop.len() && i < 4 {
                    assert!(consistent(&pop[i], t), "after the component every individual on the population stack carries the value f assigns to its solution (or is unevaluated)");
                    i += 1;
                }
            }
            d += 1;
        }
        if let Ok(b) = s.try_borrow::<BestIndividual<TagP>>() {
            if let Some(i) = &**b {
                assert!(consistent(i, t), "the best-so-far memory is consistent");
            }
        }
    }
    fn state2(t: &[f64; 4], n_top: usize, with_unevaluated: bool) -> State<'static, TagP> {
        let mut pops = Populations::<TagP>::new();
        pops.push(vec![ev(t), if with_unevaluated { any_ind(t) } else { ev(t) }]);
        let mut top = Vec::with_capacity(2);
        let mut i = 0;
        while i < n_top {
            top.push(ev(t));
            i += 1;
        }
        pops.push(top);
        let mut s: State<TagP> = State::new();
        s.insert(crate::rng::sym_random(2));
        s.insert(Temperature(1.0));
        let mut b = BestIndividual::<TagP>::new();
        if sym::bool() {
            b.update(&ev(t));
        }
        s.insert(b);
        s.insert(pops);
        s
    }

    macro_rules! comp {
        ($name:ident, $uw:expr, $ntop:expr, $uneval:expr, $c:expr) => {
            #[cfg_attr(kani, kani::proof)]
            #[cfg_attr(kani, kani::unwind($uw))]
            pub fn $name() {
                let t = table();
                let mut s = state2(&t, $ntop, $uneval);
                let c = $c;
                let _ = Component::<TagP>::execute(&c, &TagP, &mut s); // Ok or Err: the invariant holds either way
                all_consistent(&s, &t, 3);
                vcover!(true, "reached");
                std::mem::forget(s);
            }
        };
    }
    // @h tier=thorough bound="stack [2, 1] of consistent individuals (one arbitrary): selection All through its driver" unwind=5 cost=4 mem=28 timeout=3000
    comp!(h_c05_comp_select_all, 5, 1, true, All::from_params());
    // @h tier=quick bound="stack [2, 1]: CloneSingle(2) through its driver" unwind=5 cost=4 mem=10 timeout=600
    comp!(h_c05_comp_clone_single, 5, 1, true, CloneSingle::from_params(2));
    // @h tier=thorough bound="stack [2, 2]: Merge replacement" unwind=6 cost=4 mem=28 timeout=3000
    comp!(h_c05_comp_merge, 6, 2, true, Merge::from_params());
    // @h tier=thorough bound="stack [2, 2] (all evaluated): MuPlusLambda(2)" unwind=7 cost=5 mem=28 timeout=3000
    comp!(h_c05_comp_mupluslambda, 7, 2, false, MuPlusLambda::from_params(2));
    // @h tier=quick bound="stack [2, 2] (all evaluated): KeepBetterAtIndex" unwind=6 cost=4 mem=10 timeout=600
    comp!(h_c05_comp_keepbetter, 6, 2, false, KeepBetterAtIndex::from_params());
    // @h tier=quick bound="stack [2, 1] (all evaluated): BestIndividualUpdate from any memory" unwind=5 cost=4 mem=10 timeout=600
    comp!(h_c05_comp_best_update, 5, 1, false, BestIndividualUpdate::from_params());
    // @h tier=quick bound="stack [2, 1]: ClearPopulation" unwind=5 cost=3 mem=10 timeout=600
    comp!(h_c05_comp_clear, 5, 1, true, ClearPopulation::from_params());
    // @h tier=quick bound="stack [2, 1]: RotatePopulations(2)" unwind=5 cost=3 mem=10 timeout=600
    comp!(h_c05_comp_rotate, 5, 1, true, RotatePopulations::from_params(2));

    /// @h tier=quick bound="stack [1, 1] (both evaluated): SA acceptance, exp over-approximated (any value)" unwind=5 cost=4 mem=10 timeout=600
    #[cfg_attr(kani, kani::proof)]
    #[cfg_attr(kani, kani::unwind(5))]
    pub fn h_c05_comp_sa_acceptance() {
        let t = table();
        let mut pops = Populations::<TagP>::new();
        pops.push(vec![ev(&t)]);
        pops.push(vec![ev(&t)]);
        let mut s: State<TagP> = State::new();
        s.insert(crate::rng::sym_random(1));
        s.insert(Temperature(1.0));
        s.insert(pops);
        let c = ExponentialAnnealingAcceptance::new::<TagP>(1.0);
        let _ = c.execute(&TagP, &mut s);
        all_consistent(&s, &t, 2);
        vcover!(true, "reached");
        std::mem::forget((s, c));
    }
}
