//! C18 — particle swarm keeps velocities clamped and best memories consistent.
//! Code: mahf::components::swarm::pso::{ParticleVelocitiesUpdate::{from_params,init,execute},ParticleVelocitiesInit::from_params,PersonalBestParticlesUpdate::execute,GlobalBestParticleUpdate::{init,execute},InertiaWeight,BestParticles,BestParticle,ParticleVelocities}
//! Code: mahf::components::mapping::common::Linear::{map,execute}, mahf::components::mapping::mapping, mahf::state::common::Progress
//! Out: swarms larger than 2, dimension above 1; magnitudes above 2^20 in the velocity step; the full three-product velocity formula is thorough-tier (three symbolic 64-bit multipliers: 12 min of SAT in the probe); that the shipped template passes (start, end) in that order is template wiring (C16)
//! Reclimit: mahf::state::(registry::)?StateRegistry::<.*>::find(_mut)?::<.*>=2
//! Assume: inductive one-step from an arbitrary swarm state of the stated shape; SymRng draws u in [0,1) as produced by rand's f64 sampler
use mahf::components::mapping::{Linear, Mapping};
use mahf::components::swarm::pso::{
    BestParticle, BestParticles, GlobalBestParticleUpdate, InertiaWeight, ParticleVelocities, ParticleVelocitiesInit,
    ParticleVelocitiesUpdate, PersonalBestParticlesUpdate,
};
use mahf::components::Component;
use mahf::identifier::Global;
use mahf::lens::ValueOf;
use mahf::state::common::{Iterations, Populations, Progress};
use mahf::{Individual, State};

use crate::problems::{obj, RealP, TagP};
use crate::rng::{draws, sym_random};
use crate::sym;

type PVU = ParticleVelocitiesUpdate<Global>;

/// @h tier=quick bound="every f64 weight, c1, c2, v_max: constructors accept exactly the documented ranges"
#[cfg_attr(kani, kani::proof)]
#[cfg_attr(kani, kani::unwind(3))]
pub fn h_c18_params() {
    let (w, c1, c2, vm) = (sym::f64(), sym::f64(), sym::f64(), sym::f64());
    let r = PVU::from_params(w, c1, c2, vm);
    assert!(r.is_ok() == (w >= 0.0 && c1 >= 0.0 && c2 >= 0.0 && vm > 0.0), "velocity update accepts exactly weight, c1, c2 >= 0 and v_max > 0");
    let r2 = ParticleVelocitiesInit::<Global>::from_params(vm);
    assert!(r2.is_ok() == (vm > 0.0), "velocity init accepts exactly v_max > 0");
    vcover!(r.is_ok(), "accepted");
    std::mem::forget((r, r2));
}

// ---- inertia weight: linear interpolation at the loop's progress ---------------------------------------------

fn linear_map(start: f64, end: f64) {
    let p = sym::f64();
    sym::assume(p >= 0.0 && p <= 1.0);
    let l = Linear::from_params(start, end, ValueOf::<Progress<ValueOf<Iterations>>>::new(), ValueOf::<InertiaWeight<PVU>>::new());
    let mut rng = sym_random(0);
    match Mapping::<TagP>::map(&l, p, &mut rng) {
        Ok(w) => {
            assert!(w.to_bits() == ((end - start) * p + start).to_bits(), "the weight is the linear interpolation between start and end at the given progress");
            let (lo, hi) = if start < end { (start, end) } else { (end, start) };
            assert!(w >= lo - 1e-12 && w <= hi + 1e-12, "and lies between the two configured weights");
            if p == 0.0 {
                assert!(w == start, "progress 0 gives the start weight");
            }
            if p == 1.0 {
                assert!((w - end).abs() <= 1e-12, "progress 1 gives the end weight");
            }
        }
        Err(_) => assert!(false, "linear mapping never errs"),
    }
    vcover!(p > 0.0 && p < 1.0, "inside");
    std::mem::forget((l, rng));
}
/// @h tier=quick bound="decreasing schedule 0.9 -> 0.4, every progress in [0,1]" unwind=3 cost=2
#[cfg_attr(kani, kani::proof)]
#[cfg_attr(kani, kani::unwind(3))]
pub fn h_c18_linear_decreasing() {
    linear_map(0.9, 0.4)
}
/// @h tier=quick bound="increasing schedule 0.4 -> 0.9, every progress in [0,1]" unwind=3 cost=2
#[cfg_attr(kani, kani::proof)]
#[cfg_attr(kani, kani::unwind(3))]
pub fn h_c18_linear_increasing() {
    linear_map(0.4, 0.9)
}

/// @h tier=quick bound="through the component and its lenses: Progress -> InertiaWeight, schedule 0.4 -> 0.9, every progress in [0,1], any previous weight" unwind=4 cost=3
#[cfg_attr(kani, kani::proof)]
#[cfg_attr(kani, kani::unwind(4))]
pub fn h_c18_linear_execute() {
    let (p, w0) = (sym::f64(), sym::finite_f64());
    sym::assume(p >= 0.0 && p <= 1.0);
    let l = Linear::from_params(0.4, 0.9, ValueOf::<Progress<ValueOf<Iterations>>>::new(), ValueOf::<InertiaWeight<PVU>>::new());
    let mut s: State<TagP> = State::new();
    let mut pr = Progress::<ValueOf<Iterations>>::default();
    *pr = p;
    s.insert(pr);
    s.insert(InertiaWeight::<PVU>::new(w0));
    s.insert(sym_random(0));
    assert!(Component::<TagP>::execute(&l, &TagP, &mut s).is_ok(), "the inertia-weight update succeeds");
    let w = s.try_get_value::<InertiaWeight<PVU>>().ok();
    assert!(w.map(f64::to_bits) == Some(((0.9 - 0.4) * p + 0.4).to_bits()), "after the update the stored weight is the configured interpolation at the current progress");
    assert!(s.try_get_value::<Progress<ValueOf<Iterations>>>().ok() == Some(p), "progress is only read");
    vcover!(true, "reached");
    std::mem::forget((s, l));
}

// ---- best memories ------------------------------------------------------------------------------------------------------

fn particle(x: f64, o: f64) -> Individual<RealP> {
    Individual::new(vec![x], obj(o))
}

/// Personal bests never get worse and are the better of (old, current), per particle.
fn personal_best(n: usize) {
    let mut cur = Vec::with_capacity(2);
    let mut old = Vec::with_capacity(2);
    let (mut oc, mut oo, mut xc, mut xo) = ([0.0; 2], [0.0; 2], [0.0; 2], [0.0; 2]);
    let mut i = 0;
    while i < n {
        oc[i] = sym::legal_f64();
        oo[i] = sym::legal_f64();
        xc[i] = sym::finite_f64();
        xo[i] = sym::finite_f64();
        cur.push(particle(xc[i], oc[i]));
        old.push(particle(xo[i], oo[i]));
        i += 1;
    }
    let mut pops = Populations::<RealP>::new();
    pops.push(cur);
    let mut s: State<RealP> = State::new();
    s.insert(BestParticles::<RealP, Global>::new(old));
    s.insert(pops);
    let c = PersonalBestParticlesUpdate::<Global>::from_params();
    assert!(Component::<RealP>::execute(&c, &RealP::d1(-1.0, 1.0), &mut s).is_ok(), "personal-best update succeeds");
    {
        let b = s.borrow::<BestParticles<RealP, Global>>();
        assert!(b.len() == n, "one personal best per particle");
        let mut i = 0;
        while i < n {
            let v = b[i].objective().value();
            assert!(v <= oo[i], "a personal best never gets worse");
            assert!(v <= oc[i], "and is at least as good as the particle's current position");
            if oc[i] < oo[i] {
                assert!(b[i].solution()[0].to_bits() == xc[i].to_bits() && v.to_bits() == oc[i].to_bits(), "a strictly better position replaces the personal best, with its value");
            } else {
                assert!(b[i].solution()[0].to_bits() == xo[i].to_bits() && v.to_bits() == oo[i].to_bits(), "otherwise the personal best is kept");
            }
            i += 1;
        }
        assert!(s.populations().current().len() == n, "the swarm itself is untouched");
    }
    vcover!(true, "reached");
    std::mem::forget(s);
}
/// @h tier=quick bound="1 particle, dimension 1, all legal objectives" unwind=4 cost=5 mem=16 timeout=900
#[cfg_attr(kani, kani::proof)]
#[cfg_attr(kani, kani::unwind(4))]
pub fn h_c18_personal_best_1() {
    personal_best(1)
}
/// @h tier=thorough bound="2 particles, dimension 1, all legal objectives" unwind=5 cost=9 mem=28 timeout=2400
#[cfg_attr(kani, kani::proof)]
#[cfg_attr(kani, kani::unwind(5))]
pub fn h_c18_personal_best_2() {
    personal_best(2)
}

/// The global best equals the best personal best: updated from the current swarm it is replaced
/// by any strictly better particle, however small the improvement.
fn global_best(n: usize) {
    let mut cur = Vec::with_capacity(2);
    let mut oc = [0.0; 2];
    let mut i = 0;
    while i < n {
        oc[i] = sym::legal_f64();
        cur.push(particle(i as f64, oc[i]));
        i += 1;
    }
    let og = sym::legal_f64();
    let filled = sym::bool();
    let mut pops = Populations::<RealP>::new();
    pops.push(cur);
    let mut s: State<RealP> = State::new();
    s.insert(BestParticle::<RealP, Global>::new(if filled { Some(particle(9.0, og)) } else { None }));
    s.insert(pops);
    let c = GlobalBestParticleUpdate::<Global>::from_params();
    assert!(Component::<RealP>::execute(&c, &RealP::d1(-1.0, 1.0), &mut s).is_ok(), "global-best update succeeds");
    {
        let b = s.borrow::<BestParticle<RealP, Global>>();
        match &**b {
            Some(g) => {
                let v = g.objective().value();
                let mut i = 0;
                while i < n {
                    assert!(v <= oc[i], "the global best is at least as good as every particle it was updated from");
                    i += 1;
                }
                if filled {
                    assert!(v <= og, "the global best never gets worse");
                    let mut better = false;
                    let mut i = 0;
                    while i < n {
                        better |= oc[i] < og;
                        i += 1;
                    }
                    if !better {
                        assert!(g.solution()[0] == 9.0 && v.to_bits() == og.to_bits(), "kept when no particle is strictly better");
                    }
                }
            }
            None => assert!(!filled && n == 0, "filled as soon as a particle exists"),
        }
    }
    vcover!(true, "reached");
    std::mem::forget(s);
}
/// @h tier=quick bound="1 particle, any previous global best (or none), all legal objectives" unwind=4 cost=5 mem=16 timeout=900
#[cfg_attr(kani, kani::proof)]
#[cfg_attr(kani, kani::unwind(4))]
pub fn h_c18_global_best_1() {
    global_best(1)
}
/// @h tier=thorough bound="2 particles, any previous global best (or none)" unwind=5 cost=9 mem=28 timeout=2400
#[cfg_attr(kani, kani::proof)]
#[cfg_attr(kani, kani::unwind(5))]
pub fn h_c18_global_best_2() {
    global_best(2)
}

// ---- velocity / position update ---------------------------------------------------------------------------------------------------

const BIG: f64 = 1048576.0;

/// One particle, one dimension. `c1`, `c2` concrete per harness (one-product variants); the stored
/// inertia weight is symbolic and DIFFERENT from the constructor's weight.
fn velocity(c1: f64, c2: f64, check_formula: bool) {
    velocity_w(c1, c2, check_formula, None)
}
fn velocity_w(c1: f64, c2: f64, check_formula: bool, fixed_w: Option<f64>) {
    let (x, v, xp, xg) = (sym::f64(), sym::f64(), sym::f64(), sym::f64());
    let w = match fixed_w {
        Some(w) => w,
        None => sym::f64(),
    };
    sym::assume(x.abs() <= BIG && v.abs() <= BIG && xp.abs() <= BIG && xg.abs() <= BIG && w >= 0.0 && w <= 4.0);
    let vmax = 2.0;
    let c = match PVU::from_params(123.0, c1, c2, vmax) {
        Ok(c) => c,
        Err(_) => {
            assert!(false, "legal parameters");
            return;
        }
    };
    let mut pops = Populations::<RealP>::new();
    pops.push(vec![particle(x, 0.0)]);
    let mut s: State<RealP> = State::new();
    s.insert(InertiaWeight::<PVU>::new(w));
    s.insert(ParticleVelocities::<Global>::new(vec![vec![v]]));
    s.insert(BestParticles::<RealP, Global>::new(vec![particle(xp, 0.0)]));
    s.insert(BestParticle::<RealP, Global>::new(Some(particle(xg, 0.0))));
    s.insert(sym_random(2));
    s.insert(pops);
    let r = Component::<RealP>::execute(&c, &RealP::d1(-BIG, BIG), &mut s);
    assert!(r.is_ok(), "the velocity update succeeds on a consistent swarm");
    {
        let vs = s.borrow::<ParticleVelocities<Global>>();
        assert!(vs.len() == 1 && vs[0].len() == 1, "one velocity entry per particle and dimension");
        let nv = vs[0][0];
        assert!(nv >= -vmax && nv <= vmax, "after the update every velocity component lies within [-v_max, v_max]");
        let p = s.populations();
        assert!(p.current().len() == 1, "one particle");
        let nx = p.current()[0].solution()[0];
        assert!(nx.to_bits() == (x + nv).to_bits(), "each particle has moved by exactly its new velocity");
        assert!(!p.current()[0].is_evaluated(), "a moved particle is unevaluated");
        if check_formula && c1 == 0.0 && c2 == 0.0 {
            let raw = w * v;
            let want = if raw > vmax { vmax } else if raw < -vmax { -vmax } else { raw };
            assert!(nv == want || (raw == 0.0 && nv == 0.0), "it is the STORED inertia weight that scales the old velocity");
        }
        assert!(s.borrow::<BestParticles<RealP, Global>>().len() == 1, "the personal-best collection keeps one entry per particle");
    }
    vcover!(true, "reached");
    std::mem::forget((s, c));
}
/// @h tier=thorough bound="1 particle x 1 dimension, c1 = c2 = 0 (inertia term only), magnitudes <= 2^20, stored weight in [0,4]" unwind=4 cost=9 mem=28 timeout=3600
#[cfg_attr(kani, kani::proof)]
#[cfg_attr(kani, kani::unwind(4))]
pub fn h_c18_velocity_inertia_only() {
    velocity(0.0, 0.0, true)
}
/// @h tier=quick bound="1 particle x 1 dimension, c1 = c2 = 0, STORED weight 0.5 (constructor weight 123), magnitudes <= 2^20: clamp, move-by-velocity, stored weight used" unwind=4 cost=7 mem=16 timeout=900
#[cfg_attr(kani, kani::proof)]
#[cfg_attr(kani, kani::unwind(4))]
pub fn h_c18_velocity_stored_half() {
    velocity_w(0.0, 0.0, true, Some(0.5))
}
/// @h tier=thorough bound="1 particle x 1 dimension, c1 = 1.5, c2 = 0" unwind=4 cost=9 mem=28 timeout=3000
#[cfg_attr(kani, kani::proof)]
#[cfg_attr(kani, kani::unwind(4))]
pub fn h_c18_velocity_c1() {
    velocity(1.5, 0.0, false)
}
/// @h tier=thorough bound="1 particle x 1 dimension, full formula c1 = c2 = 1.5" unwind=4 cost=9 mem=28 timeout=3000
#[cfg_attr(kani, kani::proof)]
#[cfg_attr(kani, kani::unwind(4))]
pub fn h_c18_velocity_full() {
    velocity(1.5, 1.5, false)
}

/// @h tier=quick bound="size mismatch between particles and velocities is an error" unwind=4 cost=6 mem=16 timeout=900
#[cfg_attr(kani, kani::proof)]
#[cfg_attr(kani, kani::unwind(4))]
pub fn h_c18_size_mismatch() {
    let c = match PVU::from_params(1.0, 1.0, 1.0, 1.0) {
        Ok(c) => c,
        Err(_) => return,
    };
    let mut pops = Populations::<RealP>::new();
    pops.push(vec![particle(sym::finite_f64(), 0.0)]);
    let mut s: State<RealP> = State::new();
    s.insert(InertiaWeight::<PVU>::new(1.0));
    s.insert(ParticleVelocities::<Global>::new(Vec::new()));
    s.insert(BestParticles::<RealP, Global>::new(vec![particle(0.0, 0.0)]));
    s.insert(BestParticle::<RealP, Global>::new(Some(particle(0.0, 0.0))));
    s.insert(sym_random(2));
    s.insert(pops);
    assert!(Component::<RealP>::execute(&c, &RealP::d1(-1.0, 1.0), &mut s).is_err(), "a velocity collection of the wrong size is reported as an error");
    vcover!(true, "reached");
    std::mem::forget((s, c));
}
