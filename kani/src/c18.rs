//! c18 — harnesses not written yet.
