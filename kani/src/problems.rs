//! Tiny problem types used by the harnesses.
use std::ops::Range;

use mahf::problems::{LimitedVectorProblem, Problem, VectorProblem};
use mahf::{Individual, SingleObjective};

/// Encoding = u8 tag. For everything that does not look into solutions.
pub struct TagP;
impl Problem for TagP {
    type Encoding = u8;
    type Objective = SingleObjective;
    fn name(&self) -> &str {
        "TagP"
    }
}

/// Legal objective from an f64 already assumed legal (not NaN, not -inf).
pub fn obj(x: f64) -> SingleObjective {
    match SingleObjective::try_from(x) {
        Ok(o) => o,
        Err(_) => {
            crate::sym::assume(false);
            unreachable!()
        }
    }
}

pub fn tagged(tag: u8, o: f64) -> Individual<TagP> {
    Individual::new(tag, obj(o))
}

/// Real-vector problem with an explicit domain (one half-open range per dimension).
pub struct RealP {
    pub dom: Vec<Range<f64>>,
}
impl RealP {
    pub fn d1(a: f64, b: f64) -> Self {
        RealP { dom: vec![a..b] }
    }
    pub fn d2(a: f64, b: f64, c: f64, d: f64) -> Self {
        RealP { dom: vec![a..b, c..d] }
    }
}
impl RealP {
    pub fn d3(r: [(f64, f64); 3]) -> Self {
        RealP { dom: vec![r[0].0..r[0].1, r[1].0..r[1].1, r[2].0..r[2].1] }
    }
}
impl Problem for RealP {
    type Encoding = Vec<f64>;
    type Objective = SingleObjective;
    fn name(&self) -> &str {
        "RealP"
    }
}
impl VectorProblem for RealP {
    type Element = f64;
    fn dimension(&self) -> usize {
        self.dom.len()
    }
}
impl LimitedVectorProblem for RealP {
    fn domain(&self) -> Vec<Range<f64>> {
        self.dom.clone()
    }
}

/// Permutation problem of a given dimension.
pub struct PermP(pub usize);
impl Problem for PermP {
    type Encoding = Vec<usize>;
    type Objective = SingleObjective;
    fn name(&self) -> &str {
        "PermP"
    }
}
impl VectorProblem for PermP {
    type Element = usize;
    fn dimension(&self) -> usize {
        self.0
    }
}

/// Bitstring problem of a given dimension.
pub struct BitP(pub usize);
impl Problem for BitP {
    type Encoding = Vec<bool>;
    type Objective = SingleObjective;
    fn name(&self) -> &str {
        "BitP"
    }
}
impl VectorProblem for BitP {
    type Element = bool;
    fn dimension(&self) -> usize {
        self.0
    }
}

/// 3-city symmetric TSP with fixed distances (1, 2, 3).
pub struct Tsp3;
impl Problem for Tsp3 {
    type Encoding = Vec<usize>;
    type Objective = SingleObjective;
    fn name(&self) -> &str {
        "Tsp3"
    }
}
impl VectorProblem for Tsp3 {
    type Element = usize;
    fn dimension(&self) -> usize {
        3
    }
}
impl mahf::problems::TravellingSalespersonProblem for Tsp3 {
    fn distance(&self, edge: (usize, usize)) -> f64 {
        const D: [[f64; 3]; 3] = [[0.0, 1.0, 2.0], [1.0, 0.0, 3.0], [2.0, 3.0, 0.0]];
        D[edge.0][edge.1]
    }
}
