//! Tiny problem types used by the harnesses.
use std::ops::Range;

use mahf::problems::{LimitedVectorProblem, Problem, VectorProblem};
use mahf::{Individual, SingleObjective};

/// Encoding = u8 tag. For everything that does not look into solutions.
pub struct TagP;
impl Problem for TagP {
    type Encoding = u8;
    type Objective = SingleObjective;
    fn name(&self) -> &str {
        "TagP"
    }
}

/// Legal objective from an f64 already assumed legal (not NaN, not -inf).
pub fn obj(x: f64) -> SingleObjective {
    match SingleObjective::try_from(x) {
        Ok(o) => o,
        Err(_) => {
            crate::sym::assume(false);
            unreachable!()
        }
    }
}

pub fn tagged(tag: u8, o: f64) -> Individual<TagP> {
    Individual::new(tag, obj(o))
}
