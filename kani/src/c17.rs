//! c17 — harnesses not written yet.
