//! C17 — simulated-annealing acceptance follows the Metropolis rule.
//! Code: mahf::components::replacement::sa::{ExponentialAnnealingAcceptance::{init,execute},Temperature}, mahf::components::mapping::sa::GeometricCooling::{from_params,map,execute}, mahf::components::mapping::mapping
//! Out: the numeric accuracy of libm's exp (axiomatised: sign/monotonic facts only, argument recorded); populations with more than one individual
//! Reclimit: mahf::state::(registry::)?StateRegistry::<.*>::find(_mut)?::<.*>=2
//! Assume: stack in the order the shipped SA template builds it (current below, candidate on top); exp stub axioms: NaN iff NaN, r >= 0, exp(0) = 1, x > 0 => r >= 1, x < 0 => r <= 1, exp(+inf) = +inf, exp(-inf) = 0
use mahf::components::mapping::sa::GeometricCooling;
use mahf::components::mapping::Mapping;
use mahf::components::replacement::sa::{ExponentialAnnealingAcceptance, Temperature};
use mahf::components::Component;
use mahf::lens::ValueOf;
use mahf::state::common::Populations;
use mahf::{Individual, State};

use crate::problems::{obj, TagP};
use crate::rng::{draws, sym_random};
use crate::sym;

#[cfg(kani)]
static mut EXP_ARG: f64 = 0.0;
#[cfg(kani)]
static mut EXP_RET: f64 = 0.0;
#[cfg(kani)]
static mut EXP_CALLS: u32 = 0;
#[cfg(kani)]
fn exp_model(x: f64) -> f64 {
    let r: f64 = kani::any();
    if x.is_nan() {
        kani::assume(r.is_nan());
    } else {
        kani::assume(!r.is_nan() && r >= 0.0);
        if x == 0.0 {
            kani::assume(r == 1.0);
        }
        if x > 0.0 {
            kani::assume(r >= 1.0);
        }
        if x < 0.0 {
            kani::assume(r <= 1.0);
        }
        if x == f64::INFINITY {
            kani::assume(r == f64::INFINITY);
        }
        if x == f64::NEG_INFINITY {
            kani::assume(r == 0.0);
        }
    }
    unsafe {
        EXP_ARG = x;
        EXP_RET = r;
        EXP_CALLS += 1;
    }
    r
}

fn sa_state(f_cur: f64, f_cand: f64, t: f64, with_base: bool) -> State<'static, TagP> {
    let mut pops = Populations::<TagP>::new();
    if with_base {
        pops.push(vec![Individual::new(9u8, obj(0.0))]);
    }
    pops.push(vec![Individual::new(0u8, obj(f_cur))]); // current
    pops.push(vec![Individual::new(1u8, obj(f_cand))]); // candidate (on top, as the template builds it)
    let mut s: State<TagP> = State::new();
    s.insert(Temperature(t));
    s.insert(sym_random(1));
    s.insert(pops);
    s
}

fn survivor(s: &State<'static, TagP>, with_base: bool) -> u8 {
    let p = s.populations();
    assert!(p.len() == if with_base { 2 } else { 1 }, "the two single-individual populations are reduced to one");
    assert!(p.current().len() == 1, "the remaining population holds exactly the survivor");
    if with_base {
        assert!(p.peek(1).len() == 1 && *p.peek(1)[0].solution() == 9, "populations underneath are untouched");
    }
    *p.current()[0].solution()
}

/// @h tier=quick bound="all finite objective pairs with candidate <= current, all finite T > 0, the uniform draw symbolic" unwind=4 cost=4
#[cfg_attr(kani, kani::proof)]
#[cfg_attr(kani, kani::unwind(4))]
#[cfg_attr(kani, kani::stub(f64::exp, exp_model))]
pub fn h_c17_better_or_equal_always_accepted() {
    let (f_cur, f_cand, t) = (sym::finite_f64(), sym::finite_f64(), sym::finite_f64());
    sym::assume(t > 0.0 && f_cand <= f_cur);
    let mut s = sa_state(f_cur, f_cand, t, false);
    let c = ExponentialAnnealingAcceptance::new::<TagP>(1.0);
    let r = c.execute(&TagP, &mut s);
    assert!(r.is_ok(), "acceptance succeeds on two single-individual populations");
    let who = survivor(&s, false);
    assert!(who == 1, "a candidate at least as good as the current solution always replaces it");
    vcover!(f_cand == f_cur, "tie");
    vcover!(f_cand < f_cur, "strictly better");
    std::mem::forget((s, c));
}

fn worse(t: f64, with_base: bool, check_arg: bool) {
    let (f_cur, f_cand) = (sym::finite_f64(), sym::finite_f64());
    sym::assume(t > 0.0 && f_cand > f_cur);
    let mut s = sa_state(f_cur, f_cand, t, with_base);
    let c = ExponentialAnnealingAcceptance::new::<TagP>(1.0);
    let r = c.execute(&TagP, &mut s);
    assert!(r.is_ok(), "acceptance succeeds on two single-individual populations");
    let who = survivor(&s, with_base);
    assert!(who == 0 || who == 1, "the survivor is one of the two");
    #[cfg(kani)]
    unsafe {
        // the acceptance probability is exp(-(f(candidate) - f(current)) / T): the decision is
        // `u < exp(arg)` for the recorded return value of exp
        assert!(EXP_CALLS == 1, "exp is evaluated once");
        assert!(EXP_ARG <= 0.0, "a worse candidate has a non-positive exponent, i.e. acceptance probability <= 1");
        if check_arg {
            assert!(EXP_ARG == (f_cur - f_cand) / t, "the exponent is -(f(candidate) - f(current)) / T");
        }
        if EXP_RET == 0.0 {
            assert!(who == 0, "probability 0 (T -> 0): a worse candidate is never accepted");
        }
        if EXP_RET >= 1.0 {
            assert!(who == 1, "probability 1 (T -> inf): a worse candidate is always accepted");
        }
    }
    vcover!(who == 1, "worse candidate accepted");
    vcover!(who == 0, "worse candidate rejected");
    std::mem::forget((s, c));
}
/// @h tier=quick bound="all finite objective pairs with candidate > current, all finite T > 0, the uniform draw symbolic; exp axiomatised and recorded" unwind=4 cost=5 mem=12 timeout=600
#[cfg_attr(kani, kani::proof)]
#[cfg_attr(kani, kani::unwind(4))]
#[cfg_attr(kani, kani::stub(f64::exp, exp_model))]
pub fn h_c17_worse_metropolis() {
    worse(sym::finite_f64(), false, false)
}
/// @h tier=quick bound="as above with a further population underneath (stack height 3)" unwind=4 cost=5 mem=12 timeout=600
#[cfg_attr(kani, kani::proof)]
#[cfg_attr(kani, kani::unwind(4))]
#[cfg_attr(kani, kani::stub(f64::exp, exp_model))]
pub fn h_c17_worse_metropolis_base() {
    worse(sym::finite_f64(), true, false)
}
/// @h tier=quick bound="T = 2: the exponent handed to exp is bit-equal to -(f(candidate) - f(current)) / T" unwind=4 cost=5 mem=12 timeout=600
#[cfg_attr(kani, kani::proof)]
#[cfg_attr(kani, kani::unwind(4))]
#[cfg_attr(kani, kani::stub(f64::exp, exp_model))]
pub fn h_c17_worse_exponent_t2() {
    worse(2.0, false, true)
}
/// @h tier=thorough bound="all finite T > 0: the exponent handed to exp is bit-equal to -(f(candidate) - f(current)) / T (symbolic divider)" unwind=4 cost=9 mem=24 timeout=2400
#[cfg_attr(kani, kani::proof)]
#[cfg_attr(kani, kani::unwind(4))]
#[cfg_attr(kani, kani::stub(f64::exp, exp_model))]
pub fn h_c17_worse_exponent_any_t() {
    worse(sym::finite_f64(), false, true)
}

/// Wrong cardinalities are errors, not panics.
/// @h tier=quick bound="candidate population empty" unwind=4 cost=3
#[cfg_attr(kani, kani::proof)]
#[cfg_attr(kani, kani::unwind(4))]
#[cfg_attr(kani, kani::stub(f64::exp, exp_model))]
pub fn h_c17_missing_candidate_is_err() {
    let mut pops = Populations::<TagP>::new();
    pops.push(vec![Individual::new(0u8, obj(sym::legal_f64()))]);
    pops.push(Vec::new());
    let mut s: State<TagP> = State::new();
    s.insert(Temperature(1.0));
    s.insert(sym_random(1));
    s.insert(pops);
    let c = ExponentialAnnealingAcceptance::new::<TagP>(1.0);
    assert!(c.execute(&TagP, &mut s).is_err(), "a missing candidate is reported as an error");
    vcover!(true, "reached");
    std::mem::forget((s, c));
}

/// @h tier=quick bound="init inserts the initial temperature, any finite t0" unwind=4 cost=2
#[cfg_attr(kani, kani::proof)]
#[cfg_attr(kani, kani::unwind(4))]
pub fn h_c17_init_temperature() {
    let t0 = sym::finite_f64();
    let c = ExponentialAnnealingAcceptance::new::<TagP>(t0);
    let mut s: State<TagP> = State::new();
    assert!(c.init(&TagP, &mut s).is_ok(), "init succeeds");
    assert!(s.try_get_value::<Temperature>().ok().map(f64::to_bits) == Some(t0.to_bits()), "the temperature starts at t0");
    vcover!(true, "reached");
    std::mem::forget((s, c));
}

// ---- geometric cooling ---------------------------------------------------------------------------------

/// @h tier=quick bound="every f64 alpha: constructor accepts exactly [0,1)"
#[cfg_attr(kani, kani::proof)]
#[cfg_attr(kani, kani::unwind(3))]
pub fn h_c17_cooling_params() {
    let a = sym::f64();
    let r = GeometricCooling::from_params(a, ValueOf::<Temperature>::new());
    assert!(r.is_ok() == (a >= 0.0 && a < 1.0), "geometric cooling accepts exactly alpha in [0, 1)");
    vcover!(r.is_ok(), "accepted");
    std::mem::forget(r);
}

/// @h tier=quick bound="every finite T, every alpha in [0,1): map multiplies once" unwind=3 cost=3 timeout=600
#[cfg_attr(kani, kani::proof)]
#[cfg_attr(kani, kani::unwind(3))]
pub fn h_c17_cooling_map() {
    let (t, a) = (sym::finite_f64(), sym::f64());
    sym::assume(a >= 0.0 && a < 1.0);
    let c = match GeometricCooling::from_params(a, ValueOf::<Temperature>::new()) {
        Ok(c) => c,
        Err(_) => {
            assert!(false, "legal alpha");
            return;
        }
    };
    let mut rng = sym_random(0);
    let r = Mapping::<TagP>::map(&c, t, &mut rng);
    match r {
        Ok(v) => assert!(v.to_bits() == (t * a).to_bits(), "cooling multiplies the temperature by its factor exactly once"),
        Err(_) => assert!(false, "cooling never errs"),
    }
    vcover!(true, "reached");
    std::mem::forget((c, rng));
}

fn cooling_execute(a: f64) {
    let t = sym::finite_f64();
    let c = match GeometricCooling::from_params(a, ValueOf::<Temperature>::new()) {
        Ok(c) => c,
        Err(_) => {
            assert!(false, "legal alpha");
            return;
        }
    };
    let mut s: State<TagP> = State::new();
    s.insert(Temperature(t));
    s.insert(sym_random(0));
    assert!(Component::<TagP>::execute(&c, &TagP, &mut s).is_ok(), "cooling succeeds");
    assert!(s.try_get_value::<Temperature>().ok().map(f64::to_bits) == Some((t * a).to_bits()), "after one execution the stored temperature is T * alpha (multiplied exactly once)");
    vcover!(t > 0.0 && t < 1e-300, "tiny temperature");
    std::mem::forget((s, c));
}
/// @h tier=quick bound="alpha = 0.5, every finite T (including subnormal results): through the component and its lenses" unwind=4 cost=3
#[cfg_attr(kani, kani::proof)]
#[cfg_attr(kani, kani::unwind(4))]
pub fn h_c17_cooling_execute_half() {
    cooling_execute(0.5)
}
/// @h tier=quick bound="alpha = 0 (legal), every finite T" unwind=4 cost=3
#[cfg_attr(kani, kani::proof)]
#[cfg_attr(kani, kani::unwind(4))]
pub fn h_c17_cooling_execute_zero() {
    cooling_execute(0.0)
}
/// @h tier=thorough bound="alpha = 0.9, every finite T" unwind=4 cost=8 mem=12 timeout=2400
#[cfg_attr(kani, kani::proof)]
#[cfg_attr(kani, kani::unwind(4))]
pub fn h_c17_cooling_execute_09() {
    cooling_execute(0.9)
}
