//! C08 — same seed, same run (NARROW claim: generator handling only).
//! Code: mahf::state::random::Random::{with_rng,config,iter_children,next_u32,next_u64,fill_bytes}, RandomIter::next, mahf::problems::evaluate::Sequential::evaluate, mahf::components::evaluation::PopulationEvaluator::execute (draw-freeness)
//! Out: independence of evaluator / thread count / scheduling (rayon: no concurrency model in the engine); 'different seeds give different streams' for the default ChaCha12 generator (a cryptographic injectivity question, not a bounded-model-checking one); equality of whole runs of cloned configurations (whole-program); Configuration::optimize_with cannot be compiled by Kani 0.68 (thread_rng ICE), so 'a user-supplied generator is never replaced' is decided only at the level of the state API the function uses (contains / insert)
//! Assume: harness generator SeedRng whose stream is a visible function of its seed (output k = seed + k), so that seeding and child derivation are observable
use mahf::components::evaluation::PopulationEvaluator;
use mahf::components::Component;
use mahf::identifier::Global;
use mahf::problems::{Evaluate, ObjectiveFunction, Problem, Sequential};
use mahf::state::common::{Evaluations, Populations};
use mahf::{Individual, Random, SingleObjective, State};
use rand::{RngCore, SeedableRng};

use crate::problems::obj;
use crate::rng::{draws, sym_random};
use crate::sym;

/// Generator whose k-th 64-bit output is seed + k.
pub struct SeedRng {
    seed: u64,
    k: u64,
}
impl RngCore for SeedRng {
    fn next_u32(&mut self) -> u32 {
        self.next_u64() as u32
    }
    fn next_u64(&mut self) -> u64 {
        let v = self.seed.wrapping_add(self.k);
        self.k += 1;
        v
    }
    fn fill_bytes(&mut self, dest: &mut [u8]) {
        for b in dest {
            *b = self.next_u64() as u8;
        }
    }
    fn try_fill_bytes(&mut self, dest: &mut [u8]) -> Result<(), rand::Error> {
        self.fill_bytes(dest);
        Ok(())
    }
}
impl SeedableRng for SeedRng {
    type Seed = [u8; 8];
    fn from_seed(s: Self::Seed) -> Self {
        SeedRng { seed: u64::from_le_bytes(s), k: 0 }
    }
    fn seed_from_u64(seed: u64) -> Self {
        SeedRng { seed, k: 0 }
    }
}

/// @h tier=quick bound="every 64-bit seed: the generator is seeded with exactly the given seed and reports it" unwind=4 cost=2
#[cfg_attr(kani, kani::proof)]
#[cfg_attr(kani, kani::unwind(4))]
pub fn h_c08_seeding() {
    let seed = sym::u64();
    let mut r = Random::with_rng::<SeedRng>(seed);
    assert!(r.config().seed == seed, "the configured seed is reported");
    assert!(r.next_u64() == seed, "the backend is seeded with exactly that seed (first output)");
    assert!(r.next_u64() == seed.wrapping_add(1), "second output");
    assert!(r.next_u32() == seed.wrapping_add(2) as u32, "32-bit outputs come from the same stream");
    let seed2 = sym::u64();
    let mut r2 = Random::with_rng::<SeedRng>(seed2);
    let (a, b) = (r2.next_u64(), {
        let mut r3 = Random::with_rng::<SeedRng>(seed);
        r3.next_u64()
    });
    assert!((a == b) == (seed == seed2), "equal seeds give equal streams and different seeds different ones (for this generator)");
    vcover!(seed == 0, "seed zero");
    vcover!(seed != seed2, "different seeds");
    std::mem::forget((r, r2));
}

/// @h tier=quick bound="every 64-bit seed: children are a deterministic function of the parent stream" unwind=4 cost=3
#[cfg_attr(kani, kani::proof)]
#[cfg_attr(kani, kani::unwind(4))]
pub fn h_c08_children() {
    let seed = sym::u64();
    let mut parent = Random::with_rng::<SeedRng>(seed);
    let mut it = parent.iter_children();
    let c1 = it.next();
    let c2 = it.next();
    match (c1, c2) {
        (Some(mut c1), Some(mut c2)) => {
            assert!(c1.config().seed == seed && c2.config().seed == seed.wrapping_add(1), "each child is seeded with the next output of the parent");
            assert!(c1.next_u64() == seed && c2.next_u64() == seed.wrapping_add(1), "and built with the parent's generator type (its stream shows the seed)");
            // the parent advanced by exactly two outputs
            assert!(parent.next_u64() == seed.wrapping_add(2), "deriving a child consumes exactly one parent output");
            // a second parent with the same seed derives the same children
            let mut p2 = Random::with_rng::<SeedRng>(seed);
            match p2.iter_children().next() {
                Some(mut d1) => assert!(d1.config().seed == c1.config().seed && d1.next_u64() == seed, "same seed, same children"),
                None => assert!(false, "children never run out"),
            }
            // grandchildren use the same constructor
            match c1.iter_children().next() {
                Some(g) => assert!(g.config().seed == seed.wrapping_add(1), "a child derives its own children the same way"),
                None => assert!(false, "children never run out"),
            }
            std::mem::forget((c1, c2, p2));
        }
        _ => assert!(false, "children never run out"),
    }
    vcover!(true, "reached");
    std::mem::forget(parent);
}

// ---- sequential evaluation draws nothing ------------------------------------------------------------------------------

pub struct P8;
impl Problem for P8 {
    type Encoding = u8;
    type Objective = SingleObjective;
    fn name(&self) -> &str {
        "P8"
    }
}
impl ObjectiveFunction for P8 {
    fn objective(&self, s: &u8) -> SingleObjective {
        obj(*s as f64)
    }
}

/// @h tier=quick bound="evaluation step on 2 individuals with a generator in the state: zero draws, generator untouched" unwind=5 cost=4 mem=12
#[cfg_attr(kani, kani::proof)]
#[cfg_attr(kani, kani::unwind(5))]
pub fn h_c08_evaluation_draws_nothing() {
    let mut pops = Populations::<P8>::new();
    pops.push(vec![Individual::new_unevaluated(sym::u8()), Individual::new_unevaluated(sym::u8())]);
    let mut s: State<P8> = State::new();
    s.insert(Evaluations(0));
    s.insert_evaluator(Sequential::<P8>::new());
    s.insert(sym_random(0));
    s.insert(pops);
    let c = PopulationEvaluator::<Global>::from_params();
    assert!(Component::<P8>::execute(&c, &P8, &mut s).is_ok(), "evaluation succeeds");
    assert!(draws() == 0, "sequential evaluation consumes no random numbers, so results cannot depend on how evaluation is scheduled relative to other draws");
    assert!(s.contains::<Random>(), "the generator stays in the state");
    vcover!(true, "reached");
    std::mem::forget(s);
}

/// The state-level rule `optimize_with` applies: a generator is inserted only if none is there.
/// @h tier=quick bound="state API used by optimize_with: a supplied generator is found by contains::<Random>() and keeps its seed" unwind=4 cost=2
#[cfg_attr(kani, kani::proof)]
#[cfg_attr(kani, kani::unwind(4))]
pub fn h_c08_supplied_generator_visible() {
    let seed = sym::u64();
    let mut s: State<P8> = State::new();
    s.insert(Populations::<P8>::new());
    s.insert(Random::with_rng::<SeedRng>(seed));
    assert!(s.contains::<Random>(), "a supplied generator is visible to the 'insert a default only if absent' rule");
    assert!(s.borrow::<Random>().config().seed == seed, "and is the one supplied");
    assert!(s.random_mut().next_u64() == seed, "with its stream untouched");
    vcover!(true, "reached");
    std::mem::forget(s);
}
