//! c08 — harnesses not written yet.
