//! c19 — harnesses not written yet.
