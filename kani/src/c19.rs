//! C19 — ant-colony generation yields valid tours; pheromone updates are well-formed.
//! Code: mahf::components::generative::{PheromoneMatrix::{new,index,index_mut,mul_assign},AsPheromoneUpdate::execute,MinMaxPheromoneUpdate::{from_params,execute},AcoGeneration::{init,execute}}
//! Out: more than 3 cities; tour lengths outside [2^-10, 2^20], trails above 2^20; general real alpha/beta (powf is over-approximated by the engine: alpha = beta = 1 with an exact stub); tour generation is thorough-tier best effort (rand's WeightedIndex machinery: the single-draw roulette probe ran out of 16 GB)
//! Reclimit: mahf::state::(registry::)?StateRegistry::<.*>::find(_mut)?::<.*>=2
//! Assume: inductive one-step from an arbitrary pheromone matrix satisfying the reachable-state invariant (finite, non-negative; within [min,max] for the max-min variant); evaporation 0.5 (so that evaporate-then-deposit is recomputed bit-exactly without a symbolic multiplier); population = [greedy tour, one sampled tour]
use mahf::components::generative::{AcoGeneration, AsPheromoneUpdate, MinMaxPheromoneUpdate, PheromoneMatrix};
use mahf::components::Component;
use mahf::state::common::Populations;
use mahf::{Individual, State};

use crate::problems::{obj, Tsp3};
use crate::rng::sym_random;
use crate::sym;

const BIG: f64 = 1048576.0;

fn sym_matrix(lo: f64, hi: f64, m: &mut [[f64; 3]; 3]) -> PheromoneMatrix {
    let mut pm = PheromoneMatrix::new(3, 0.0);
    let mut a = 0;
    while a < 3 {
        let mut b = 0;
        while b < 3 {
            let v = sym::f64();
            sym::assume(v >= lo && v <= hi);
            m[a][b] = v;
            pm[a][b] = v;
            b += 1;
        }
        a += 1;
    }
    pm
}

/// Matrix with two symbolic trails — (0,2) lies on the sampled tour, (0,1) does not — and 1.0 elsewhere.
fn sparse_matrix(lo: f64, hi: f64, m: &mut [[f64; 3]; 3]) -> PheromoneMatrix {
    let mut pm = PheromoneMatrix::new(3, 1.0);
    *m = [[1.0; 3]; 3];
    let (v, w) = (sym::f64(), sym::f64());
    sym::assume(v >= lo && v <= hi && w >= lo && w <= hi);
    m[0][2] = v;
    pm[0][2] = v;
    m[0][1] = w;
    pm[0][1] = w;
    pm
}

/// @h tier=quick bound="3x3 matrix: new, Index, IndexMut, MulAssign with symbolic values" unwind=11 cost=2
#[cfg_attr(kani, kani::proof)]
#[cfg_attr(kani, kani::unwind(11))]
pub fn h_c19_matrix_ops() {
    let v = sym::finite_f64();
    let mut pm = PheromoneMatrix::new(3, v);
    let mut a = 0;
    while a < 3 {
        assert!(pm[a].len() == 3, "a row per city");
        let mut b = 0;
        while b < 3 {
            assert!(pm[a][b].to_bits() == v.to_bits(), "every trail starts at the initial value");
            b += 1;
        }
        a += 1;
    }
    let (x, i, j) = (sym::finite_f64(), sym::upto(2) as usize, sym::upto(2) as usize);
    pm[i][j] = x;
    let mut a = 0;
    while a < 3 {
        let mut b = 0;
        while b < 3 {
            let want = if a == i && b == j { x } else { v };
            assert!(pm[a][b].to_bits() == want.to_bits(), "a write changes exactly the addressed trail");
            b += 1;
        }
        a += 1;
    }
    pm *= 0.5;
    assert!(pm[i][j].to_bits() == (x * 0.5).to_bits() && pm[(i + 1) % 3][j].to_bits() == (v * 0.5).to_bits(), "scaling evaporates every trail by the factor");
    vcover!(true, "reached");
}

fn aco_state(pm: PheromoneMatrix, o_greedy: f64, o_ant: f64) -> State<'static, Tsp3> {
    let mut pops = Populations::<Tsp3>::new();
    pops.push(vec![Individual::new(vec![0usize, 1, 2], obj(o_greedy)), Individual::new(vec![0usize, 2, 1], obj(o_ant))]);
    let mut s: State<Tsp3> = State::new();
    s.insert(pm);
    s.insert(pops);
    s
}
/// edges between consecutive cities of the sampled tour 0 -> 2 -> 1
fn rewarded(a: usize, b: usize) -> bool {
    (a == 0 && b == 2) || (a == 2 && b == 0) || (a == 2 && b == 1) || (a == 1 && b == 2)
}

/// @h tier=thorough bound="3 cities, any finite non-negative matrix <= 2^20, sampled tour 0-2-1 with any length in [2^-10, 2^20], evaporation 0.5, decay 1" unwind=11 cost=9 mem=40 timeout=3600
#[cfg_attr(kani, kani::proof)]
#[cfg_attr(kani, kani::unwind(11))]
pub fn h_c19_as_update() {
    as_update(true)
}
/// @h tier=quick bound="3 cities, trails (0,2) [on the sampled tour] and (0,1) [not on it] any finite value in [0, 2^20], others 1; sampled tour 0-2-1 of length 4; evaporation 0.5, decay 1" unwind=11 cost=6 mem=16 timeout=900
#[cfg_attr(kani, kani::proof)]
#[cfg_attr(kani, kani::unwind(11))]
pub fn h_c19_as_update_sparse() {
    as_update(false)
}
fn as_update(full: bool) {
    let mut m = [[0.0; 3]; 3];
    let pm = if full { sym_matrix(0.0, BIG, &mut m) } else { sparse_matrix(0.0, BIG, &mut m) };
    let (og, oa) = if full { (sym::finite_f64(), sym::finite_f64()) } else { (3.0, 4.0) };
    sym::assume(og >= 0.0009765625 && og <= BIG && oa >= 0.0009765625 && oa <= BIG);
    let mut s = aco_state(pm, og, oa);
    let c = AsPheromoneUpdate::from_params(0.5, 1.0);
    assert!(Component::<Tsp3>::require(&c, &Tsp3, &s.requirements()).is_ok(), "matrix present");
    assert!(Component::<Tsp3>::execute(&c, &Tsp3, &mut s).is_ok(), "the update succeeds");
    {
        let pm = s.borrow::<PheromoneMatrix>();
        let delta = 1.0 / oa;
        let mut a = 0;
        while a < 3 {
            let mut b = 0;
            while b < 3 {
                let want = if rewarded(a, b) { m[a][b] * 0.5 + delta } else { m[a][b] * 0.5 };
                assert!(pm[a][b].to_bits() == want.to_bits(), "every trail is evaporated first; exactly the edges between consecutive cities of the sampled tours are then reinforced, symmetrically, by decay / tour length");
                assert!(pm[a][b].is_finite() && pm[a][b] >= 0.0, "trails stay finite and non-negative");
                b += 1;
            }
            a += 1;
        }
    }
    vcover!(true, "reached");
    std::mem::forget(s);
}

fn mmas(check_unrewarded: bool, full: bool) {
    let (lo, hi) = (0.125, 8.0);
    let mut m = [[0.0; 3]; 3];
    let pm = if full { sym_matrix(lo, hi, &mut m) } else { sparse_matrix(lo, hi, &mut m) };
    let (og, oa) = if full { (sym::finite_f64(), sym::finite_f64()) } else { (3.0, 4.0) };
    sym::assume(og >= 0.0009765625 && og <= BIG && oa >= 0.0009765625 && oa <= BIG);
    let mut s = aco_state(pm, og, oa);
    let c = match MinMaxPheromoneUpdate::from_params(0.5, hi, lo) {
        Ok(c) => c,
        Err(_) => {
            assert!(false, "min < max is accepted");
            return;
        }
    };
    assert!(Component::<Tsp3>::execute(&c, &Tsp3, &mut s).is_ok(), "the update succeeds");
    {
        let pm = s.borrow::<PheromoneMatrix>();
        let delta = 1.0 / oa;
        let mut a = 0;
        while a < 3 {
            let mut b = 0;
            while b < 3 {
                if rewarded(a, b) {
                    let raw = m[a][b] * 0.5 + delta;
                    let want = if raw < lo { lo } else if raw > hi { hi } else { raw };
                    assert!(pm[a][b].to_bits() == want.to_bits(), "max-min: rewarded edges are evaporated, reinforced by 1 / tour length and kept within the bounds");
                } else if check_unrewarded {
                    assert!(pm[a][b] >= lo && pm[a][b] <= hi, "max-min: every trail stays within the configured bounds");
                } else {
                    assert!(pm[a][b] <= m[a][b] && pm[a][b] >= 0.0, "max-min: other edges only evaporate");
                }
                b += 1;
            }
            a += 1;
        }
    }
    vcover!(true, "reached");
    std::mem::forget(s);
}
/// @h tier=thorough bound="max-min variant: rewarded edges, 3 cities, matrix within [1/8, 8], tour length in [2^-10, 2^20], evaporation 0.5" unwind=11 cost=9 mem=40 timeout=3600
#[cfg_attr(kani, kani::proof)]
#[cfg_attr(kani, kani::unwind(11))]
pub fn h_c19_mmas_rewarded() {
    mmas(false, true)
}
/// @h tier=quick bound="max-min variant, rewarded edges: trails (0,2),(0,1) any value in [1/8, 8], others 1; best sampled tour 0-2-1 of length 4" unwind=11 cost=6 mem=16 timeout=900
#[cfg_attr(kani, kani::proof)]
#[cfg_attr(kani, kani::unwind(11))]
pub fn h_c19_mmas_rewarded_sparse() {
    mmas(false, false)
}
/// @h tier=quick bound="max-min variant, ALL trails within [min,max] afterwards: trails (0,2),(0,1) any value in [1/8, 8], others 1" unwind=11 cost=6 mem=16 timeout=900
#[cfg_attr(kani, kani::proof)]
#[cfg_attr(kani, kani::unwind(11))]
pub fn h_c19_mmas_bounds_sparse() {
    mmas(true, false)
}
/// @h tier=thorough bound="max-min variant: ALL trails within [min,max] afterwards (pre-state within bounds)" unwind=11 cost=9 mem=40 timeout=3600
#[cfg_attr(kani, kani::proof)]
#[cfg_attr(kani, kani::unwind(11))]
pub fn h_c19_mmas_bounds() {
    mmas(true, true)
}

/// @h tier=quick bound="max-min constructor: every f64 min/max" unwind=3
#[cfg_attr(kani, kani::proof)]
#[cfg_attr(kani, kani::unwind(3))]
pub fn h_c19_mmas_params() {
    let (mn, mx) = (sym::f64(), sym::f64());
    let r = MinMaxPheromoneUpdate::from_params(0.5, mx, mn);
    assert!(r.is_ok() == (mn < mx), "the max-min update accepts exactly min < max");
    vcover!(r.is_ok(), "accepted");
    std::mem::forget(r);
}

#[cfg(kani)]
fn powf_model(b: f64, e: f64) -> f64 {
    if e == 1.0 {
        b
    } else if e == 0.0 {
        1.0
    } else {
        kani::any()
    }
}
/// @h tier=thorough bound="generation: 3 cities, 1 ant, alpha = beta = 1, any finite non-negative matrix <= 2^20; all draw sequences within 4 draws" unwind=8 cost=9 mem=40 timeout=3600
#[cfg_attr(kani, kani::proof)]
#[cfg_attr(kani, kani::unwind(8))]
#[cfg_attr(kani, kani::stub(f64::powf, powf_model))]
pub fn h_c19_generation() {
    let mut m = [[0.0; 3]; 3];
    let pm = sym_matrix(0.0, BIG, &mut m);
    let mut pops = Populations::<Tsp3>::new();
    pops.push(Vec::new());
    let mut s: State<Tsp3> = State::new();
    s.insert(pm);
    s.insert(sym_random(4));
    s.insert(pops);
    let c = AcoGeneration::from_params(1, 1.0, 1.0, 1.0);
    assert!(Component::<Tsp3>::execute(&c, &Tsp3, &mut s).is_ok(), "generation succeeds for every reachable pheromone state");
    {
        let p = s.populations();
        let cur = p.current();
        assert!(cur.len() == 2, "one greedy tour plus the requested number of sampled tours");
        let mut i = 0;
        while i < 2 {
            let t = cur[i].solution();
            assert!(t.len() == 3 && t[0] == 0, "each tour visits all cities and starts at city 0");
            assert!((t[1] == 1 && t[2] == 2) || (t[1] == 2 && t[2] == 1), "each tour is a permutation of all cities");
            assert!(!cur[i].is_evaluated(), "new tours are unevaluated");
            i += 1;
        }
    }
    vcover!(true, "reached");
    std::mem::forget(s);
}
