//! C04 — the population stack is a faithful LIFO stack of populations.
//! Code: mahf::state::common::Populations::{new,push,pop,try_pop,current,get_current,current_mut,get_current_mut,peek,try_peek,rotate,len,is_empty}
//! Code: mahf::components::utils::populations::{RotatePopulations,ClearPopulation,DuplicatePopulation,InterleavePopulations}::execute
//! Out: stack height > 4, populations with more than 2 individuals (the code is uniform in both: Vec<Vec<_>> operations)
//! Assume: pre-state = stack of concrete height h with level sizes [1,2,0,2][..h] (bottom to top) and symbolic tags; one real operation from it (inductive step)
use mahf::components::utils::populations::{ClearPopulation, DuplicatePopulation, InterleavePopulations, RotatePopulations};
use mahf::components::Component;
use mahf::state::common::Populations;
use mahf::{Individual, State};

use crate::problems::TagP;
use crate::sym;

const SIZES: [usize; 4] = [1, 2, 0, 2];

#[derive(Clone, Copy)]
struct Model {
    h: usize,
    size: [usize; 6],
    tag: [[u8; 4]; 6],
}

fn ind(t: u8) -> Individual<TagP> {
    Individual::new_unevaluated(t)
}

/// Stack of height `h` (bottom..top) with symbolic tags, and its model.
fn build(h: usize) -> (Populations<TagP>, Model) {
    build_sizes(h, SIZES)
}
fn build_sizes(h: usize, sizes: [usize; 4]) -> (Populations<TagP>, Model) {
    let mut m = Model { h, size: [0; 6], tag: [[0; 4]; 6] };
    let mut p = Populations::<TagP>::new();
    let mut i = 0;
    while i < h {
        let n = sizes[i];
        let mut v = Vec::with_capacity(3);
        let mut j = 0;
        while j < n {
            let t = sym::u8();
            m.tag[i][j] = t;
            v.push(ind(t));
            j += 1;
        }
        m.size[i] = n;
        p.push(v);
        i += 1;
    }
    (p, m)
}

fn same_pop(got: &[Individual<TagP>], m: &Model, level: usize) -> bool {
    if got.len() != m.size[level] {
        return false;
    }
    let mut j = 0;
    while j < got.len() {
        if *got[j].solution() != m.tag[level][j] || got[j].is_evaluated() {
            return false;
        }
        j += 1;
    }
    true
}

/// Every read of the stack agrees with the model (non-panicking accessors only).
fn check_all(p: &Populations<TagP>, m: &Model) {
    assert!(p.len() == m.h, "len equals model height");
    assert!(p.is_empty() == (m.h == 0), "is_empty agrees");
    let mut d = 0;
    while d < m.h {
        match p.try_peek(d) {
            Some(got) => assert!(same_pop(got, m, m.h - 1 - d), "try_peek(depth) returns the population a plain stack holds at that depth"),
            None => assert!(false, "try_peek(depth < height) is Some"),
        }
        d += 1;
    }
    assert!(p.try_peek(m.h).is_none(), "try_peek(height) is None");
    match p.get_current() {
        Some(got) => assert!(m.h > 0 && same_pop(got, m, m.h - 1), "get_current is the top population"),
        None => assert!(m.h == 0, "get_current is None only on an empty stack"),
    }
}

fn reads(h: usize) {
    let (p, m) = build(h);
    check_all(&p, &m);
    let d = sym::usize();
    let r = p.try_peek(d); // must not panic for ANY depth
    assert!(r.is_some() == (d < h), "try_peek is Some exactly for depth < height");
    if h > 0 {
        assert!(same_pop(p.current(), &m, h - 1), "current() is the top population");
        let d2 = sym::usize();
        sym::assume(d2 < h);
        assert!(same_pop(p.peek(d2), &m, h - 1 - d2), "peek(depth) for depth < height");
    }
    vcover!(d > h, "deep probe");
    std::mem::forget(p);
}


/// @h tier=quick bound="height 0, any depth argument" unwind=3
#[cfg_attr(kani, kani::proof)]
#[cfg_attr(kani, kani::unwind(3))]
pub fn h_c04_reads_h0() {
    reads(0)
}
/// @h tier=quick bound="height 1, symbolic tags, any depth argument" unwind=4
#[cfg_attr(kani, kani::proof)]
#[cfg_attr(kani, kani::unwind(4))]
pub fn h_c04_reads_h1() {
    reads(1)
}
/// @h tier=quick bound="height 3, symbolic tags, any depth argument" unwind=6
#[cfg_attr(kani, kani::proof)]
#[cfg_attr(kani, kani::unwind(6))]
pub fn h_c04_reads_h3() {
    reads(3)
}
/// @h tier=thorough bound="height 4, symbolic tags, any depth argument" unwind=7
#[cfg_attr(kani, kani::proof)]
#[cfg_attr(kani, kani::unwind(7))]
pub fn h_c04_reads_h4() {
    reads(4)
}
/// @h tier=thorough bound="height 2, symbolic tags, any depth argument" unwind=5
#[cfg_attr(kani, kani::proof)]
#[cfg_attr(kani, kani::unwind(5))]
pub fn h_c04_reads_h2() {
    reads(2)
}

fn push_pop(h: usize) {
    let (mut p, mut m) = build(h);
    // push a 2-individual population with symbolic tags
    let (a, b) = (sym::u8(), sym::u8());
    p.push(vec![ind(a), ind(b)]);
    m.size[h] = 2;
    m.tag[h][0] = a;
    m.tag[h][1] = b;
    m.h = h + 1;
    check_all(&p, &m);
    // try_pop returns exactly it and re-exposes everything below unchanged
    match p.try_pop() {
        Some(top) => assert!(same_pop(&top, &m, h), "try_pop returns the pushed population"),
        None => assert!(false, "try_pop on a non-empty stack is Some"),
    }
    m.h = h;
    check_all(&p, &m);
    // pop the original top (or observe None)
    let r = p.try_pop();
    if h == 0 {
        assert!(r.is_none(), "try_pop on an empty stack is None");
        assert!(p.try_pop().is_none() && p.get_current().is_none() && p.get_current_mut().is_none(), "empty stays empty, accessors None");
    } else {
        match r {
            Some(top) => assert!(same_pop(&top, &m, h - 1), "second try_pop returns the next population"),
            None => assert!(false, "try_pop is Some"),
        }
        m.h = h - 1;
        check_all(&p, &m);
    }
    vcover!(a != b, "reached");
    std::mem::forget(p);
}
/// @h tier=quick bound="height 0: push, try_pop, try_pop" unwind=4
#[cfg_attr(kani, kani::proof)]
#[cfg_attr(kani, kani::unwind(4))]
pub fn h_c04_pushpop_h0() {
    push_pop(0)
}
/// @h tier=quick bound="height 2: push, try_pop, try_pop" unwind=6
#[cfg_attr(kani, kani::proof)]
#[cfg_attr(kani, kani::unwind(6))]
pub fn h_c04_pushpop_h2() {
    push_pop(2)
}
/// @h tier=thorough bound="height 1: push, try_pop, try_pop" unwind=5
#[cfg_attr(kani, kani::proof)]
#[cfg_attr(kani, kani::unwind(5))]
pub fn h_c04_pushpop_h1() {
    push_pop(1)
}
/// @h tier=thorough bound="height 3: push, try_pop, try_pop" unwind=7
#[cfg_attr(kani, kani::proof)]
#[cfg_attr(kani, kani::unwind(7))]
pub fn h_c04_pushpop_h3() {
    push_pop(3)
}

/// Pushing onto a stack whose top population is empty (as left behind by ClearPopulation or a
/// selection of nothing) adds a level like any other push.
/// @h tier=quick bound="stack [[a],[]]: push [x,y], read all, try_pop twice" unwind=6
#[cfg_attr(kani, kani::proof)]
#[cfg_attr(kani, kani::unwind(6))]
pub fn h_c04_push_on_empty_top() {
    let (mut p, mut m) = build_sizes(2, [1, 0, 0, 0]);
    let (a, b) = (sym::u8(), sym::u8());
    p.push(vec![ind(a), ind(b)]);
    m.h = 3;
    m.size[2] = 2;
    m.tag[2][0] = a;
    m.tag[2][1] = b;
    check_all(&p, &m);
    let top = p.try_pop();
    m.h = 2;
    check_all(&p, &m);
    let e = p.try_pop();
    assert!(matches!(&e, Some(v) if v.is_empty()), "the empty population is still there below");
    m.h = 1;
    check_all(&p, &m);
    vcover!(a != b, "reached");
    std::mem::forget((p, top, e));
}
/// @h tier=quick bound="stack [[a]]: clear top in place, push [x], read all" unwind=5
#[cfg_attr(kani, kani::proof)]
#[cfg_attr(kani, kani::unwind(5))]
pub fn h_c04_push_after_inplace_clear() {
    let (mut p, mut m) = build_sizes(1, [1, 0, 0, 0]);
    let removed = p.current_mut().pop();
    assert!(removed.is_some(), "inner pop");
    m.size[0] = 0;
    check_all(&p, &m);
    let a = sym::u8();
    p.push(vec![ind(a)]);
    m.h = 2;
    m.size[1] = 1;
    m.tag[1][0] = a;
    check_all(&p, &m);
    vcover!(true, "reached");
    std::mem::forget(p);
}

/// In-place edits through current_mut / get_current_mut (overwrite an individual, edit a
/// solution, remove an individual), then pop(): the edits land in the top population only.
/// (Growing the inner Vec through the reference is avoided: the re-allocation path with a
/// symbolic capacity costs 50+ s of SAT per push and is std code, not mahf code.)
fn edit(h: usize) {
    let (mut p, mut m) = build(h);
    let top = h - 1;
    let n = m.size[top];
    let (t, t2) = (sym::u8(), sym::u8());
    p.current_mut()[0] = ind(t);
    m.tag[top][0] = t;
    check_all(&p, &m);
    match p.get_current_mut() {
        Some(cur) => {
            *cur[n - 1].solution_mut() = t2;
        }
        None => assert!(false, "get_current_mut is Some on a non-empty stack"),
    }
    m.tag[top][n - 1] = t2;
    check_all(&p, &m);
    let removed = p.current_mut().pop();
    assert!(removed.is_some(), "inner pop returns the last individual");
    m.size[top] = n - 1;
    check_all(&p, &m);
    let got = p.pop();
    assert!(same_pop(&got, &m, top), "pop returns the edited top");
    m.h = h - 1;
    check_all(&p, &m);
    vcover!(t != t2, "reached");
    std::mem::forget(p);
    std::mem::forget(got);
}
/// @h tier=quick bound="height 1: edit top in place, pop" unwind=5
#[cfg_attr(kani, kani::proof)]
#[cfg_attr(kani, kani::unwind(5))]
pub fn h_c04_edit_h1() {
    edit(1)
}
/// @h tier=quick bound="height 2: edit top in place, pop" unwind=6
#[cfg_attr(kani, kani::proof)]
#[cfg_attr(kani, kani::unwind(6))]
pub fn h_c04_edit_h2() {
    edit(2)
}

/// rotate(n): exactly the top n populations are shifted by one (the top one goes to the bottom
/// of the rotated window, like `rotate_right(1)` on the window) and n applications restore.
fn rotate(h: usize, n: usize) {
    let (mut p, m) = build(h);
    p.rotate(n);
    let mut e = m;
    if n > 0 {
        // window = levels h-n .. h-1 ; new[h-n] = old[h-1], new[k] = old[k-1] for k in h-n+1..h
        let mut k = h - n;
        while k < h {
            let src = if k == h - n { h - 1 } else { k - 1 };
            e.size[k] = m.size[src];
            e.tag[k] = m.tag[src];
            k += 1;
        }
    }
    check_all(&p, &e);
    let mut i = 1;
    while i < n {
        p.rotate(n);
        i += 1;
    }
    check_all(&p, &m);
    std::mem::forget(p);
}
macro_rules! rot {
    ($name:ident, $h:expr, $n:expr, $uw:expr) => {
        #[cfg_attr(kani, kani::proof)]
        #[cfg_attr(kani, kani::unwind($uw))]
        pub fn $name() {
            rotate($h, $n);
            vcover!(true, "reached");
        }
    };
}
// @h tier=quick bound="height 1, rotate(1)" unwind=4
rot!(h_c04_rotate_h1_n1, 1, 1, 4);
// @h tier=quick bound="height 2, rotate(2) twice" unwind=5
rot!(h_c04_rotate_h2_n2, 2, 2, 5);
// @h tier=quick bound="height 3, rotate(2) twice" unwind=6
rot!(h_c04_rotate_h3_n2, 3, 2, 6);
// @h tier=quick bound="height 3, rotate(3) three times" unwind=6
rot!(h_c04_rotate_h3_n3, 3, 3, 6);
// @h tier=quick bound="height 3, rotate(1)" unwind=6
rot!(h_c04_rotate_h3_n1, 3, 1, 6);
// @h tier=quick bound="height 2, rotate(0)" unwind=5
rot!(h_c04_rotate_h2_n0, 2, 0, 5);
// @h tier=thorough bound="height 4, rotate(4) four times" unwind=7
rot!(h_c04_rotate_h4_n4, 4, 4, 7);
// @h tier=thorough bound="height 4, rotate(3) three times" unwind=7
rot!(h_c04_rotate_h4_n3, 4, 3, 7);
// @h tier=thorough bound="height 4, rotate(2) twice" unwind=7
rot!(h_c04_rotate_h4_n2, 4, 2, 7);
// @h tier=thorough bound="height 2, rotate(1)" unwind=5
rot!(h_c04_rotate_h2_n1, 2, 1, 5);

/// Rotation after a net pop (a two-step history): the window is taken from the LIVE top.
/// @h tier=quick bound="height 3, pop, rotate(2): compared with the plain stack after ONE rotation" unwind=6 cost=2
#[cfg_attr(kani, kani::proof)]
#[cfg_attr(kani, kani::unwind(6))]
pub fn h_c04_pop_then_rotate() {
    let (mut p, m) = build_sizes(3, [1, 2, 1, 0]);
    let top = p.pop();
    assert!(same_pop(&top, &m, 2), "pop returns the top population");
    p.rotate(2);
    let mut e = m;
    e.h = 2;
    e.size[0] = m.size[1];
    e.tag[0] = m.tag[1];
    e.size[1] = m.size[0];
    e.tag[1] = m.tag[0];
    check_all(&p, &e);
    // push after the rotation lands on top of the rotated stack
    let t = sym::u8();
    p.push(vec![ind(t)]);
    e.h = 3;
    e.size[2] = 1;
    e.tag[2][0] = t;
    check_all(&p, &e);
    vcover!(true, "reached");
    std::mem::forget((p, top));
}

// ---- components through a prepared state ---------------------------------------------------------

fn state_with(p: Populations<TagP>) -> State<'static, TagP> {
    let mut s: State<TagP> = State::new();
    s.insert(p);
    s
}

/// RotatePopulations guards its height: Err (no panic) when the stack is too shallow, otherwise
/// the same effect as rotate(n).
fn rotate_component(h: usize, n: usize) {
    let (p, m) = build(h);
    let mut s = state_with(p);
    let c = RotatePopulations::from_params(n);
    let r = Component::<TagP>::execute(&c, &TagP, &mut s);
    if n > h {
        assert!(r.is_err(), "RotatePopulations reports a too-shallow stack as Err");
        check_all(&s.populations(), &m);
    } else {
        assert!(r.is_ok(), "RotatePopulations succeeds when the stack is high enough");
        let mut e = m;
        if n > 0 {
            let mut k = h - n;
            while k < h {
                let src = if k == h - n { h - 1 } else { k - 1 };
                e.size[k] = m.size[src];
                e.tag[k] = m.tag[src];
                k += 1;
            }
        }
        check_all(&s.populations(), &e);
    }
    std::mem::forget(s);
}
/// @h tier=quick bound="height 2, component n=2 (n == height)" unwind=5 cost=3
#[cfg_attr(kani, kani::proof)]
#[cfg_attr(kani, kani::unwind(5))]
pub fn h_c04_rotatecomp_h2_n2() {
    rotate_component(2, 2);
    vcover!(true, "reached");
}
/// @h tier=quick bound="height 2, component n=3 (too shallow)" unwind=5 cost=3
#[cfg_attr(kani, kani::proof)]
#[cfg_attr(kani, kani::unwind(5))]
pub fn h_c04_rotatecomp_h2_n3() {
    rotate_component(2, 3);
    vcover!(true, "reached");
}
/// @h tier=thorough bound="height 3, component n=2" unwind=6 cost=3
#[cfg_attr(kani, kani::proof)]
#[cfg_attr(kani, kani::unwind(6))]
pub fn h_c04_rotatecomp_h3_n2() {
    rotate_component(3, 2);
    vcover!(true, "reached");
}

/// ClearPopulation empties the top population only; DuplicatePopulation doubles the top
/// population (each individual followed by its copy); Interleave merges the two top ones.
/// @h tier=quick bound="height 2: ClearPopulation" unwind=5 cost=3
#[cfg_attr(kani, kani::proof)]
#[cfg_attr(kani, kani::unwind(5))]
pub fn h_c04_clear_h2() {
    let (p, mut m) = build(2);
    let mut s = state_with(p);
    let r = Component::<TagP>::execute(&ClearPopulation::from_params(), &TagP, &mut s);
    assert!(r.is_ok(), "ClearPopulation succeeds");
    m.size[1] = 0;
    check_all(&s.populations(), &m);
    vcover!(true, "reached");
    std::mem::forget(s);
}
fn duplicate(sizes: [usize; 4]) {
    let (p, mut m) = build_sizes(2, sizes);
    let mut s = state_with(p);
    let r = Component::<TagP>::execute(&DuplicatePopulation::from_params(), &TagP, &mut s);
    assert!(r.is_ok(), "DuplicatePopulation succeeds");
    let (a, b) = (m.tag[1][0], m.tag[1][1]);
    if sizes[1] == 2 {
        m.size[1] = 4;
        m.tag[1] = [a, a, b, b];
    } else {
        m.size[1] = 2;
        m.tag[1] = [a, a, 0, 0];
    }
    check_all(&s.populations(), &m);
    std::mem::forget(s);
}
/// @h tier=thorough bound="height 2: DuplicatePopulation on a 1-individual top" unwind=5 cost=8 mem=24 timeout=1200
#[cfg_attr(kani, kani::proof)]
#[cfg_attr(kani, kani::unwind(5))]
pub fn h_c04_duplicate_top1() {
    duplicate([1, 1, 0, 0]);
    vcover!(true, "reached");
}
/// @h tier=thorough bound="height 2: DuplicatePopulation on a 2-individual top" unwind=6 cost=9 mem=24 timeout=1500
#[cfg_attr(kani, kani::proof)]
#[cfg_attr(kani, kani::unwind(6))]
pub fn h_c04_duplicate_top2() {
    duplicate([1, 2, 0, 0]);
    vcover!(true, "reached");
}
fn interleave_pops(sizes: [usize; 4]) {
    let (p, m) = build_sizes(2, sizes);
    let mut s = state_with(p);
    let r = Component::<crate::problems::TagP>::execute(&InterleavePopulations::from_params(), &TagP, &mut s);
    assert!(r.is_ok(), "InterleavePopulations succeeds");
    let mut e = m;
    e.h = 1;
    if sizes[1] == 2 {
        e.size[0] = 3;
        e.tag[0] = [m.tag[1][0], m.tag[0][0], m.tag[1][1], 0];
    } else {
        e.size[0] = 2;
        e.tag[0] = [m.tag[1][0], m.tag[0][0], 0, 0];
    }
    check_all(&s.populations(), &e);
    std::mem::forget(s);
}
/// @h tier=thorough bound="height 2: InterleavePopulations (1 and 1 individuals)" unwind=5 cost=6 mem=12 timeout=900
#[cfg_attr(kani, kani::proof)]
#[cfg_attr(kani, kani::unwind(5))]
pub fn h_c04_interleave_1_1() {
    interleave_pops([1, 1, 0, 0]);
    vcover!(true, "reached");
}
/// @h tier=thorough bound="height 2: InterleavePopulations (top 2, below 1)" unwind=6 cost=8 mem=14 timeout=900
#[cfg_attr(kani, kani::proof)]
#[cfg_attr(kani, kani::unwind(6))]
pub fn h_c04_interleave_2_1() {
    interleave_pops([1, 2, 0, 0]);
    vcover!(true, "reached");
}
