//! c04 — harnesses not written yet.
