//! c07 — harnesses not written yet.
