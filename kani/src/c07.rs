//! C07 — best-so-far and elitist memories only improve and hold the true best.
//! Code: mahf::state::common::BestIndividual::{new,update}, mahf::components::evaluation::BestIndividualUpdate::{init,execute}, mahf::population::BestIndividual::best_individual, mahf::State::{best_individual,best_objective_value}
//! Code: mahf::components::archive::{ElitistArchive,ElitistArchiveUpdate,ElitistArchiveIntoPopulation}
//! Out: the elitist-archive clauses are thorough-tier best effort: the archive can only be filled through its update component, whose sort_unstable_by_key then runs on a Vec whose length the engine cannot fold (quicksort/heapsort paths explored symbolically; no verdict in 10 min) — NOT decided in the quick tier; the run-level clause (for every shipped heuristic the reported best equals the minimum the objective function returned) — a statement about where each template places its update step, i.e. a whole-run property outside this technique; populations larger than 3, archive capacity above 3
//! Reclimit: mahf::state::(registry::)?StateRegistry::<.*>::find(_mut)?::<.*>=2
//! Assume: inductive one-step from an arbitrary memory content; archives are built by real update steps (their constructor is private): two-step histories of symbolic populations
use mahf::components::archive::{ElitistArchive, ElitistArchiveIntoPopulation, ElitistArchiveUpdate};
use mahf::components::evaluation::BestIndividualUpdate;
use mahf::components::Component;
use mahf::population::BestIndividual as BestOf;
use mahf::state::common::{BestIndividual, Populations};
use mahf::{Individual, State};

use crate::problems::{obj, TagP};
use crate::sym;

type Ind = Individual<TagP>;

/// @h tier=quick bound="BestIndividual::update: any memory (empty or any legal value), any legal candidate" unwind=4 cost=2
#[cfg_attr(kani, kani::proof)]
#[cfg_attr(kani, kani::unwind(4))]
pub fn h_c07_best_update() {
    let (o0, o) = (sym::legal_f64(), sym::legal_f64());
    let filled = sym::bool();
    let mut m = BestIndividual::<TagP>::new();
    assert!(m.is_none(), "a new memory is empty");
    if filled {
        assert!(m.update(&Individual::new(0u8, obj(o0))), "the first candidate is always recorded");
    }
    let r = m.update(&Individual::new(1u8, obj(o)));
    let replaced = !filled || o < o0;
    assert!(r == replaced, "the recorded best is replaced only by a strictly better candidate (and update reports it)");
    match &*m {
        Some(b) => {
            if replaced {
                assert!(*b.solution() == 1 && b.objective().value().to_bits() == o.to_bits(), "the candidate is recorded with its value");
            } else {
                assert!(*b.solution() == 0 && b.objective().value().to_bits() == o0.to_bits(), "the old best is kept on ties and worse candidates");
            }
            assert!(b.objective().value() <= o && (!filled || b.objective().value() <= o0), "the recorded best only ever improves");
        }
        None => assert!(false, "filled after an update"),
    }
    vcover!(filled && o == o0, "tie");
    vcover!(filled && o < o0, "improvement");
}

fn mk(n: usize, o: &mut [f64; 4]) -> Vec<Ind> {
    let mut v = Vec::with_capacity(4);
    let mut i = 0;
    while i < n {
        o[i] = sym::legal_f64();
        v.push(Individual::new(10 + i as u8, obj(o[i])));
        i += 1;
    }
    v
}

fn best_of(n: usize) {
    let mut o = [0.0; 4];
    let p = mk(n, &mut o);
    match p.best_individual() {
        Some(b) => {
            assert!(n > 0, "only a non-empty population has a best individual");
            let mut i = 0;
            let mut member = false;
            while i < n {
                assert!(b.objective().value() <= o[i], "the best individual is at least as good as every member");
                member |= core::ptr::eq(b, &p[i]);
                i += 1;
            }
            assert!(member, "and is a member");
        }
        None => assert!(n == 0, "empty population: none"),
    }
    vcover!(true, "reached");
    std::mem::forget(p);
}
/// @h tier=quick bound="best_individual of 0 individuals" unwind=3
#[cfg_attr(kani, kani::proof)]
#[cfg_attr(kani, kani::unwind(3))]
pub fn h_c07_best_of_0() {
    best_of(0)
}
/// @h tier=quick bound="best_individual of 3 individuals, all legal objectives" unwind=6 cost=2
#[cfg_attr(kani, kani::proof)]
#[cfg_attr(kani, kani::unwind(6))]
pub fn h_c07_best_of_3() {
    best_of(3)
}

fn update_component(n: usize) {
    let mut o = [0.0; 4];
    let prev = sym::legal_f64();
    let filled = sym::bool();
    let mut m = BestIndividual::<TagP>::new();
    if filled {
        m.update(&Individual::new(0u8, obj(prev)));
    }
    let mut pops = Populations::<TagP>::new();
    pops.push(mk(n, &mut o));
    let mut s: State<TagP> = State::new();
    s.insert(m);
    s.insert(pops);
    let r = Component::<TagP>::execute(&BestIndividualUpdate::from_params(), &TagP, &mut s);
    assert!(r.is_ok(), "the update step succeeds");
    let b = s.best_objective_value();
    if n == 0 {
        assert!(b.map(|v| v.value().to_bits()) == if filled { Some(prev.to_bits()) } else { None }, "an empty population changes nothing");
    } else {
        match b {
            Some(b) => {
                let mut i = 0;
                while i < n {
                    assert!(b.value() <= o[i], "right after an update the best is at least as good as every individual of the population");
                    i += 1;
                }
                if filled {
                    assert!(b.value() <= prev, "the recorded best only ever improves");
                }
                // it is the previous one or a member
                let mut from = filled && b.value() == prev;
                let mut i = 0;
                while i < n {
                    from |= b.value() == o[i];
                    i += 1;
                }
                assert!(from, "the recorded best is a value that was actually seen");
            }
            None => assert!(false, "a non-empty population fills the memory"),
        }
    }
    {
        let p = s.populations();
        assert!(p.len() == 1 && p.current().len() == n, "the population is untouched");
    }
    vcover!(true, "reached");
    std::mem::forget(s);
}
/// @h tier=quick bound="update step from any memory, empty population" unwind=4 cost=3 mem=10
#[cfg_attr(kani, kani::proof)]
#[cfg_attr(kani, kani::unwind(4))]
pub fn h_c07_update_0() {
    update_component(0)
}
/// @h tier=quick bound="update step from any memory, 2 individuals with any legal objectives" unwind=5 cost=4 mem=10
#[cfg_attr(kani, kani::proof)]
#[cfg_attr(kani, kani::unwind(5))]
pub fn h_c07_update_2() {
    update_component(2)
}
/// @h tier=thorough bound="update step from any memory, 3 individuals" unwind=6 cost=6 mem=16 timeout=1200
#[cfg_attr(kani, kani::proof)]
#[cfg_attr(kani, kani::unwind(6))]
pub fn h_c07_update_3() {
    update_component(3)
}
/// @h tier=quick bound="init inserts an empty memory" unwind=4 cost=2
#[cfg_attr(kani, kani::proof)]
#[cfg_attr(kani, kani::unwind(4))]
pub fn h_c07_update_init() {
    let mut s: State<TagP> = State::new();
    assert!(Component::<TagP>::init(&BestIndividualUpdate::from_params(), &TagP, &mut s).is_ok(), "init");
    assert!(s.best_individual().is_none() && s.best_objective_value().is_none(), "nothing recorded yet");
    vcover!(true, "reached");
    std::mem::forget(s);
}

// ---- elitist archive -------------------------------------------------------------------------------

fn tag_in(a: &[Ind], t: u8) -> bool {
    let mut i = 0;
    while i < a.len() {
        if *a[i].solution() == t {
            return true;
        }
        i += 1;
    }
    false
}

/// Two real update steps with symbolic populations A then B: afterwards the archive holds the k
/// best of everything it has been shown.
fn archive(k: usize, na: usize, nb: usize) {
    let (mut oa, mut ob) = ([0.0; 4], [0.0; 4]);
    let c = ElitistArchiveUpdate::from_params(k);
    let mut s: State<TagP> = State::new();
    let mut pops = Populations::<TagP>::new();
    pops.push(mk(na, &mut oa));
    s.insert(pops);
    assert!(Component::<TagP>::init(&c, &TagP, &mut s).is_ok(), "init");
    assert!(Component::<TagP>::execute(&c, &TagP, &mut s).is_ok(), "first update");
    {
        let mut v = Vec::with_capacity(4);
        let mut i = 0;
        while i < nb {
            ob[i] = sym::legal_f64();
            v.push(Individual::new(20 + i as u8, obj(ob[i])));
            i += 1;
        }
        s.populations_mut().push(v);
    }
    assert!(Component::<TagP>::execute(&c, &TagP, &mut s).is_ok(), "second update");
    {
        let ar = s.borrow::<ElitistArchive<TagP>>();
        let e = ar.elitists();
        let total = na + nb;
        assert!(e.len() == if k < total { k } else { total }, "an archive of capacity k holds min(k, shown) individuals");
        // worst kept value
        let mut worst = f64::NEG_INFINITY;
        let mut i = 0;
        while i < e.len() {
            let t = *e[i].solution();
            let v = e[i].objective().value();
            let ok = if t >= 20 { ((t - 20) as usize) < nb && v.to_bits() == ob[(t - 20) as usize].to_bits() } else { t >= 10 && ((t - 10) as usize) < na && v.to_bits() == oa[(t - 10) as usize].to_bits() };
            assert!(ok, "archived individuals are individuals that were shown, with their values");
            let mut j = 0;
            while j < i {
                assert!(*e[j].solution() != t, "no individual is archived twice");
                j += 1;
            }
            if v > worst {
                worst = v;
            }
            i += 1;
        }
        let mut i = 0;
        while i < na {
            if !tag_in(e, 10 + i as u8) {
                assert!(e.is_empty() || oa[i] >= worst, "no individual left out is better than an archived one (first population)");
            }
            i += 1;
        }
        let mut i = 0;
        while i < nb {
            if !tag_in(e, 20 + i as u8) {
                assert!(e.is_empty() || ob[i] >= worst, "no individual left out is better than an archived one (second population)");
            }
            i += 1;
        }
    }
    vcover!(true, "reached");
    std::mem::forget(s);
}
/// @h tier=thorough bound="capacity 3, populations of 1 then 2 (archive not yet full), all legal objectives" unwind=6 cost=9 mem=28 timeout=3000
#[cfg_attr(kani, kani::proof)]
#[cfg_attr(kani, kani::unwind(6))]
pub fn h_c07_archive_k3_1_2() {
    archive(3, 1, 2)
}
/// @h tier=thorough bound="capacity 1, populations of 1 then 1" unwind=5 cost=9 mem=28 timeout=3000
#[cfg_attr(kani, kani::proof)]
#[cfg_attr(kani, kani::unwind(5))]
pub fn h_c07_archive_k1_1_1() {
    archive(1, 1, 1)
}
/// @h tier=thorough bound="capacity 2, populations of 2 then 1 (archive full after the first)" unwind=6 cost=9 mem=28 timeout=3000
#[cfg_attr(kani, kani::proof)]
#[cfg_attr(kani, kani::unwind(6))]
pub fn h_c07_archive_k2_2_1() {
    archive(2, 2, 1)
}
/// @h tier=thorough bound="capacity 0" unwind=5 cost=9 mem=28 timeout=3000
#[cfg_attr(kani, kani::proof)]
#[cfg_attr(kani, kani::unwind(5))]
pub fn h_c07_archive_k0() {
    archive(0, 1, 1)
}
/// @h tier=thorough bound="capacity 2, populations of 2 then 2" unwind=7 cost=8 mem=20 timeout=1800
#[cfg_attr(kani, kani::proof)]
#[cfg_attr(kani, kani::unwind(7))]
pub fn h_c07_archive_k2_2_2() {
    archive(2, 2, 2)
}

/// Re-insertion: every archived individual is in the population afterwards, and one that was
/// already there is not added again.
/// @h tier=thorough bound="archive of 2 (built by an update from [a,b]); population = [a (same individual), c]; all legal objectives" unwind=6 cost=9 mem=28 timeout=3000
#[cfg_attr(kani, kani::proof)]
#[cfg_attr(kani, kani::unwind(6))]
pub fn h_c07_archive_reinsert() {
    let (oa, ob, oc) = (sym::legal_f64(), sym::legal_f64(), sym::legal_f64());
    let c = ElitistArchiveUpdate::from_params(2);
    let mut s: State<TagP> = State::new();
    let mut pops = Populations::<TagP>::new();
    pops.push(vec![Individual::new(10u8, obj(oa)), Individual::new(11u8, obj(ob))]);
    s.insert(pops);
    assert!(Component::<TagP>::init(&c, &TagP, &mut s).is_ok(), "init");
    assert!(Component::<TagP>::execute(&c, &TagP, &mut s).is_ok(), "update");
    s.populations_mut().pop();
    s.populations_mut().push(vec![Individual::new(10u8, obj(oa)), Individual::new(12u8, obj(oc))]);
    let r = ElitistArchiveIntoPopulation::from_params();
    assert!(Component::<TagP>::require(&r, &TagP, &s.requirements()).is_ok(), "archive present");
    assert!(Component::<TagP>::execute(&r, &TagP, &mut s).is_ok(), "re-insertion");
    {
        let p = s.populations();
        let cur = p.current();
        assert!(cur.len() == 3, "the archived individual that was missing is added, the one already present is not duplicated");
        let count = |t: u8| -> usize {
            let mut n = 0;
            let mut i = 0;
            while i < cur.len() {
                if *cur[i].solution() == t {
                    n += 1;
                }
                i += 1;
            }
            n
        };
        assert!(count(10) == 1 && count(11) == 1 && count(12) == 1, "each individual exactly once");
        assert!(cur[2].is_evaluated() && cur[2].objective().value().to_bits() == ob.to_bits(), "re-inserted with its objective value");
    }
    vcover!(true, "reached");
    std::mem::forget(s);
}
