//! c10 — harnesses not written yet.
