//! C10 — conditions decide what their names say; loops make exactly n passes.
//! Code: mahf::conditions::common::{LessThanN,EveryN,ChangeOf,PartialEqChecker,DeltaEqChecker,OptimumReached,RandomChance}::{init,evaluate,from_params}
//! Code: mahf::conditions::logical::{And,Or,Not} (+ the & | ! operators), mahf::components::Loop, mahf::state::common::{Iterations,Evaluations,Progress}, mahf::lens::ValueOf
//! Out: And/Or over 3 operands and nested formulas are thorough-tier (out of 12 GB); the quick tier decides And and Or over 2 operands (with the spurious self-dispatch of And/Or::evaluate capped at one level through --unwindset), Not, and loops with n <= 3; EveryN with n = 0 (division by zero; the statement speaks of multiples of n); RandomChance with p outside [0,1] (Bernoulli::new panics; undocumented precondition)
//! Reclimit: mahf::state::(registry::)?StateRegistry::<.*>::find(_mut)?::<.*>=2
//! Assume: one evaluation of each condition from a prepared one-scope state with symbolic observed value and parameters; change-of over symbolic histories of length 3; logical formulas over counting operands with symbolic answers
use better_any::{Tid, TidAble};
use derive_more::{Deref, DerefMut};
use mahf::components::{Component, Loop};
use mahf::conditions::common::{DeltaEqChecker, PartialEqChecker};
use mahf::conditions::{And, ChangeOf, Condition, EveryN, LessThanN, Not, OptimumReached, Or, RandomChance};
use mahf::lens::ValueOf;
use mahf::problems::{KnownOptimumProblem, Problem};
use mahf::state::common::{BestIndividual, Evaluations, Iterations, Progress};
use mahf::state::StateReq;
use mahf::{CustomState, ExecResult, Individual, SingleObjective, State};
use serde::Serialize;

use crate::problems::{obj, TagP};
use crate::rng::{draws, sym_random};
use crate::sym;

fn ok_bool(r: ExecResult<bool>) -> bool {
    match r {
        Ok(b) => b,
        Err(_) => {
            assert!(false, "the condition evaluates without error on a prepared state");
            false
        }
    }
}

// ---- LessThanN / EveryN ------------------------------------------------------------------------------

/// @h tier=quick bound="every n: u32, every Iterations value: u32" unwind=4 cost=2
#[cfg_attr(kani, kani::proof)]
#[cfg_attr(kani, kani::unwind(4))]
pub fn h_c10_lessthan_iterations() {
    let (n, v) = (sym::u32(), sym::u32());
    let c = LessThanN::iterations::<TagP>(n);
    let mut s: State<TagP> = State::new();
    s.insert(Iterations(v));
    assert!(c.init(&TagP, &mut s).is_ok(), "init succeeds");
    assert!(s.try_get_value::<Iterations>().ok() == Some(v), "init does not touch the observed counter");
    let r = ok_bool(c.evaluate(&TagP, &mut s));
    assert!(r == (v < n), "less-than-n is true exactly while the observed value is below n");
    vcover!(r, "true");
    vcover!(!r && v == n, "false at the boundary");
    std::mem::forget((s, c));
}

/// @h tier=quick bound="every n: u32, every Evaluations value: u32" unwind=4 cost=2
#[cfg_attr(kani, kani::proof)]
#[cfg_attr(kani, kani::unwind(4))]
pub fn h_c10_lessthan_evaluations() {
    let (n, v) = (sym::u32(), sym::u32());
    let c = LessThanN::evaluations::<TagP>(n);
    let mut s: State<TagP> = State::new();
    s.insert(Evaluations(v));
    assert!(c.init(&TagP, &mut s).is_ok(), "init succeeds");
    let r = ok_bool(c.evaluate(&TagP, &mut s));
    assert!(r == (v < n), "less-than-n is true exactly while the observed value is below n");
    vcover!(r, "true");
    std::mem::forget((s, c));
}

fn progress(n: u32) {
    let v = sym::u32();
    let c = LessThanN::iterations::<TagP>(n);
    let mut s: State<TagP> = State::new();
    s.insert(Iterations(v));
    assert!(c.init(&TagP, &mut s).is_ok(), "init succeeds");
    assert!(s.try_get_value::<Progress<ValueOf<Iterations>>>().ok() == Some(0.0), "progress starts at 0");
    let _ = ok_bool(c.evaluate(&TagP, &mut s));
    let p = s.try_get_value::<Progress<ValueOf<Iterations>>>().ok();
    assert!(p == Some(v as f64 / n as f64), "progress is value / n");
    if v == n {
        assert!(p == Some(1.0), "progress is 1 when the bound is reached");
    }
    vcover!(v == n, "at the bound");
    std::mem::forget((s, c));
}
/// @h tier=quick bound="n = 4, every Iterations value" unwind=4 cost=2
#[cfg_attr(kani, kani::proof)]
#[cfg_attr(kani, kani::unwind(4))]
pub fn h_c10_progress_n4() {
    progress(4)
}
/// @h tier=quick bound="n = 1000, every Iterations value" unwind=4 cost=2
#[cfg_attr(kani, kani::proof)]
#[cfg_attr(kani, kani::unwind(4))]
pub fn h_c10_progress_n1000() {
    progress(1000)
}
/// @h tier=quick bound="no Progress state (condition used without init): nothing is inserted" unwind=4 cost=2
#[cfg_attr(kani, kani::proof)]
#[cfg_attr(kani, kani::unwind(4))]
pub fn h_c10_progress_absent() {
    let (n, v) = (sym::u32(), sym::u32());
    let c = LessThanN::iterations::<TagP>(n);
    let mut s: State<TagP> = State::new();
    s.insert(Iterations(v));
    let r = ok_bool(c.evaluate(&TagP, &mut s));
    assert!(r == (v < n), "still decides correctly");
    assert!(!s.contains::<Progress<ValueOf<Iterations>>>(), "no progress state is invented");
    vcover!(true, "reached");
    std::mem::forget((s, c));
}

/// @h tier=thorough bound="every n >= 1, every Iterations value" unwind=4 cost=9 timeout=2400 mem=28
#[cfg_attr(kani, kani::proof)]
#[cfg_attr(kani, kani::unwind(4))]
pub fn h_c10_every_n() {
    let (n, v) = (sym::u32(), sym::u32());
    sym::assume(n >= 1);
    let c = EveryN::iterations::<TagP>(n);
    let mut s: State<TagP> = State::new();
    s.insert(Iterations(v));
    assert!(c.init(&TagP, &mut s).is_ok(), "init succeeds");
    let r = ok_bool(c.evaluate(&TagP, &mut s));
    assert!(r == (v % n == 0), "every-n is true exactly on multiples of n");
    vcover!(r && v > n, "a proper multiple");
    vcover!(!r, "not a multiple");
    std::mem::forget((s, c));
}

fn every_n_concrete(n: u32) {
    let v = sym::u32();
    let c = EveryN::iterations::<TagP>(n);
    let mut s: State<TagP> = State::new();
    s.insert(Iterations(v));
    assert!(c.init(&TagP, &mut s).is_ok(), "init succeeds");
    let r = ok_bool(c.evaluate(&TagP, &mut s));
    assert!(r == (v % n == 0), "every-n is true exactly on multiples of n");
    vcover!(r && v > n, "a proper multiple");
    vcover!(!r || n == 1, "not a multiple");
    std::mem::forget((s, c));
}
/// @h tier=quick bound="n = 1, every Iterations value" unwind=4 cost=2
#[cfg_attr(kani, kani::proof)]
#[cfg_attr(kani, kani::unwind(4))]
pub fn h_c10_every_1() {
    every_n_concrete(1)
}
/// @h tier=quick bound="n = 3, every Iterations value" unwind=4 cost=2
#[cfg_attr(kani, kani::proof)]
#[cfg_attr(kani, kani::unwind(4))]
pub fn h_c10_every_3() {
    every_n_concrete(3)
}
/// @h tier=quick bound="n = 10, every Iterations value" unwind=4 cost=2
#[cfg_attr(kani, kani::proof)]
#[cfg_attr(kani, kani::unwind(4))]
pub fn h_c10_every_10() {
    every_n_concrete(10)
}
/// @h tier=quick bound="every n in 1..=255, every Iterations value below 2^16" unwind=4 cost=4 timeout=600
#[cfg_attr(kani, kani::proof)]
#[cfg_attr(kani, kani::unwind(4))]
pub fn h_c10_every_small() {
    let (n, v) = (sym::u8() as u32, sym::u16() as u32);
    sym::assume(n >= 1);
    let c = EveryN::iterations::<TagP>(n);
    let mut s: State<TagP> = State::new();
    s.insert(Iterations(v));
    let r = ok_bool(c.evaluate(&TagP, &mut s));
    assert!(r == (v % n == 0), "every-n is true exactly on multiples of n");
    vcover!(r && v > n, "a proper multiple");
    std::mem::forget((s, c));
}

// ---- OptimumReached ---------------------------------------------------------------------------------------

pub struct OptP(pub f64);
impl Problem for OptP {
    type Encoding = u8;
    type Objective = SingleObjective;
    fn name(&self) -> &str {
        "OptP"
    }
}
impl KnownOptimumProblem for OptP {
    fn known_optimum(&self) -> SingleObjective {
        obj(self.0)
    }
}

/// @h tier=quick bound="every legal best value (or none / no state), every finite optimum, every epsilon" unwind=4 cost=3
#[cfg_attr(kani, kani::proof)]
#[cfg_attr(kani, kani::unwind(4))]
pub fn h_c10_optimum_reached() {
    let (o, opt, eps) = (sym::legal_f64(), sym::finite_f64(), sym::f64());
    let which = sym::upto(2);
    let c = OptimumReached::from_params(eps);
    assert!(c.is_ok() == (eps >= 0.0), "epsilon must be non-negative (NaN rejected)");
    let c = match c {
        Ok(c) => c,
        Err(_) => return,
    };
    let p = OptP(opt);
    let mut s: State<OptP> = State::new();
    let mut b = BestIndividual::<OptP>::new();
    if which == 2 {
        b.update(&Individual::new(0u8, obj(o)));
    }
    if which >= 1 {
        s.insert(b);
    }
    let r = ok_bool(Condition::<OptP>::evaluate(&c, &p, &mut s));
    if which == 2 {
        assert!(r == (o <= opt + eps), "optimum-reached is true exactly when the best value is within epsilon of the known optimum");
    } else {
        assert!(!r, "no best value: not reached");
    }
    vcover!(r, "reached");
    vcover!(which == 2 && !r, "not reached");
    std::mem::forget((s, p));
}

// ---- RandomChance ----------------------------------------------------------------------------------------------

/// @h tier=quick bound="every p in [0,1], every 64-bit generator output" unwind=4 cost=3
#[cfg_attr(kani, kani::proof)]
#[cfg_attr(kani, kani::unwind(4))]
pub fn h_c10_random_chance() {
    let p = sym::f64();
    sym::assume(p >= 0.0 && p <= 1.0);
    let c = RandomChance::from_params(p);
    let mut s: State<TagP> = State::new();
    s.insert(sym_random(1));
    let r = ok_bool(Condition::<TagP>::evaluate(&c, &TagP, &mut s));
    if p == 1.0 {
        assert!(r, "p = 1 always fires");
    }
    if p == 0.0 {
        assert!(!r, "p = 0 never fires");
    }
    vcover!(r && p < 0.001, "rare event reachable");
    vcover!(!r && p > 0.999, "rare miss reachable");
    std::mem::forget(s);
}

/// The set of generator outputs on which the condition fires is a prefix of the output space
/// whose size grows with p: with the same output, a larger p never turns a hit into a miss.
/// @h tier=quick bound="every p1 <= p2 in [0,1], every generator output (fed to both)" unwind=4 cost=4
#[cfg_attr(kani, kani::proof)]
#[cfg_attr(kani, kani::unwind(4))]
pub fn h_c10_random_chance_monotone() {
    let (p1, p2) = (sym::f64(), sym::f64());
    sym::assume(p1 >= 0.0 && p1 <= p2 && p2 <= 1.0);
    let d = sym::u64();
    let fire = |p: f64| -> bool {
        unsafe {
            crate::c10::FIXED = d;
        }
        let mut s: State<TagP> = State::new();
        s.insert(mahf::Random::with_rng::<FixedRng>(0));
        let r = ok_bool(Condition::<TagP>::evaluate(&RandomChance::from_params(p), &TagP, &mut s));
        std::mem::forget(s);
        r
    };
    let (r1, r2) = (fire(p1), fire(p2));
    assert!(!r1 || r2, "random-chance fires on a fraction of generator outputs that grows with p");
    // exact threshold semantics of the fraction
    let thr = |p: f64| (p * 18446744073709551616.0) as u64;
    if p1 < 1.0 {
        assert!(r1 == (d < thr(p1)), "fires exactly on the outputs below p * 2^64");
    }
    vcover!(r1, "fires");
    vcover!(!r2, "misses");
}
pub static mut FIXED: u64 = 0;
pub struct FixedRng;
impl rand::RngCore for FixedRng {
    fn next_u32(&mut self) -> u32 {
        (unsafe { FIXED } >> 32) as u32
    }
    fn next_u64(&mut self) -> u64 {
        unsafe { FIXED }
    }
    fn fill_bytes(&mut self, dest: &mut [u8]) {
        for b in dest {
            *b = 0;
        }
    }
    fn try_fill_bytes(&mut self, dest: &mut [u8]) -> Result<(), rand::Error> {
        self.fill_bytes(dest);
        Ok(())
    }
}
impl rand::SeedableRng for FixedRng {
    type Seed = [u8; 8];
    fn from_seed(_: Self::Seed) -> Self {
        FixedRng
    }
    fn seed_from_u64(_: u64) -> Self {
        FixedRng
    }
}

// ---- ChangeOf -------------------------------------------------------------------------------------------------------

#[derive(Clone, Deref, DerefMut, Tid, Serialize)]
pub struct Val(pub u32);
impl CustomState<'_> for Val {}

fn change_of(delta: bool) {
    let (v0, v1, v2) = (sym::u32(), sym::u32(), sym::u32());
    let t = sym::u32();
    let c = if delta {
        ChangeOf::from_params(DeltaEqChecker::new(t), ValueOf::<Val>::new())
    } else {
        ChangeOf::from_params(PartialEqChecker::new::<u32>(), ValueOf::<Val>::new())
    };
    let differs = |a: u32, b: u32| -> bool {
        if delta {
            (if a < b { b - a } else { a - b }) >= t
        } else {
            a != b
        }
    };
    let mut s: State<TagP> = State::new();
    s.insert(Val(v0));
    assert!(Condition::<TagP>::init(&c, &TagP, &mut s).is_ok(), "init succeeds");
    let a0 = ok_bool(Condition::<TagP>::evaluate(&c, &TagP, &mut s));
    assert!(a0, "the first observation is reported");
    let mut last = v0;
    s.set_value::<Val>(v1);
    let a1 = ok_bool(Condition::<TagP>::evaluate(&c, &TagP, &mut s));
    assert!(a1 == differs(v1, last), "change-of is true exactly when the value differs from the one it last reported (second observation)");
    if a1 {
        last = v1;
    }
    s.set_value::<Val>(v2);
    let a2 = ok_bool(Condition::<TagP>::evaluate(&c, &TagP, &mut s));
    assert!(a2 == differs(v2, last), "change-of compares with the LAST REPORTED value, not the last observed one (third observation)");
    assert!(s.try_get_value::<Val>().ok() == Some(v2), "the observed state is not modified");
    vcover!(a1 && a2, "two changes");
    vcover!(!a1 && a2, "drift reported late");
    vcover!(!a1 && !a2, "no change");
    std::mem::forget((s, c));
}
/// @h tier=quick bound="PartialEq measure; every history of three u32 values" unwind=4 cost=4
#[cfg_attr(kani, kani::proof)]
#[cfg_attr(kani, kani::unwind(4))]
pub fn h_c10_changeof_partialeq() {
    change_of(false)
}
/// @h tier=quick bound="threshold measure, every threshold; every history of three u32 values" unwind=4 cost=4
#[cfg_attr(kani, kani::proof)]
#[cfg_attr(kani, kani::unwind(4))]
pub fn h_c10_changeof_delta() {
    change_of(true)
}

// ---- And / Or / Not -------------------------------------------------------------------------------------------------------

static mut ANS: [bool; 3] = [false; 3];
static mut EVALS: [u8; 3] = [0; 3];
static mut INITS: [u8; 3] = [0; 3];
static mut REQS: [u8; 3] = [0; 3];
#[derive(Clone, Serialize)]
pub struct Op<const I: usize>;
impl<const I: usize> Condition<TagP> for Op<I> {
    fn init(&self, _p: &TagP, _s: &mut State<TagP>) -> ExecResult<()> {
        unsafe { INITS[I] += 1 };
        Ok(())
    }
    fn require(&self, _p: &TagP, _r: &StateReq<TagP>) -> ExecResult<()> {
        unsafe { REQS[I] += 1 };
        Ok(())
    }
    fn evaluate(&self, _p: &TagP, _s: &mut State<TagP>) -> ExecResult<bool> {
        unsafe {
            EVALS[I] += 1;
            Ok(ANS[I])
        }
    }
}
fn op<const I: usize>() -> Box<dyn Condition<TagP>> {
    Box::new(Op::<I>)
}
fn setup_ops() -> (bool, bool, bool) {
    let a = (sym::bool(), sym::bool(), sym::bool());
    unsafe {
        ANS = [a.0, a.1, a.2];
        EVALS = [0; 3];
        INITS = [0; 3];
        REQS = [0; 3];
    }
    a
}
fn once(k: usize) -> bool {
    unsafe {
        let mut i = 0;
        let mut ok = true;
        while i < k {
            ok &= EVALS[i] == 1;
            i += 1;
        }
        ok
    }
}
fn lifecycle(c: &dyn Condition<TagP>, s: &mut State<TagP>, k: usize) {
    assert!(c.init(&TagP, s).is_ok(), "init succeeds");
    assert!(c.require(&TagP, &s.requirements()).is_ok(), "require succeeds");
    unsafe {
        let mut i = 0;
        while i < k {
            assert!(INITS[i] == 1 && REQS[i] == 1, "init and require are forwarded to every operand exactly once");
            i += 1;
        }
    }
}

/// @h tier=thorough bound="And over 3 operands, all answers" unwind=5 cost=9 timeout=2400 mem=28
#[cfg_attr(kani, kani::proof)]
#[cfg_attr(kani, kani::unwind(5))]
pub fn h_c10_and3() {
    let (a, b, c) = setup_ops();
    let f = And::new([op::<0>(), op::<1>(), op::<2>()]);
    let mut s: State<TagP> = State::new();
    lifecycle(&*f, &mut s, 3);
    let r = ok_bool(f.evaluate(&TagP, &mut s));
    assert!(r == (a && b && c), "And combines like the Boolean operator");
    assert!(once(3), "And evaluates every operand exactly once per evaluation (no short-circuit)");
    vcover!(!a && c, "first false, later true");
    std::mem::forget((s, f));
}
/// Two operands, minimal unwind: every `dyn Condition` call can also dispatch to And/Or/Not
/// themselves, so the engine explores the recursion up to the unwind bound.
/// @h tier=thorough bound="And over 2 operands, all answers" unwind=3 cost=9 timeout=2400 mem=28
#[cfg_attr(kani, kani::proof)]
#[cfg_attr(kani, kani::unwind(3))]
pub fn h_c10_and2() {
    let (a, b, _c) = setup_ops();
    let f = And::new([op::<0>(), op::<1>()]);
    let mut s: State<TagP> = State::new();
    let r = ok_bool(f.evaluate(&TagP, &mut s));
    assert!(r == (a && b), "And combines like the Boolean operator");
    assert!(once(2), "And evaluates every operand exactly once per evaluation (no short-circuit)");
    vcover!(!a && b, "first false, second true");
    std::mem::forget((s, f));
}
/// @h tier=thorough bound="Or over 2 operands, all answers" unwind=3 cost=9 timeout=2400 mem=28
#[cfg_attr(kani, kani::proof)]
#[cfg_attr(kani, kani::unwind(3))]
pub fn h_c10_or2() {
    let (a, b, _c) = setup_ops();
    let f = Or::new([op::<0>(), op::<1>()]);
    let mut s: State<TagP> = State::new();
    let r = ok_bool(f.evaluate(&TagP, &mut s));
    assert!(r == (a || b), "Or combines like the Boolean operator");
    assert!(once(2), "Or evaluates every operand exactly once per evaluation (no short-circuit)");
    vcover!(a && !b, "first true, second false");
    std::mem::forget((s, f));
}
/// @h tier=quick bound="Not over 1 operand, all answers; init/require forwarded" unwind=3 cost=3 timeout=600
#[cfg_attr(kani, kani::proof)]
#[cfg_attr(kani, kani::unwind(3))]
pub fn h_c10_not1() {
    let (a, _b, _c) = setup_ops();
    let f = Not::new(op::<0>());
    let mut s: State<TagP> = State::new();
    lifecycle(&*f, &mut s, 1);
    let r = ok_bool(f.evaluate(&TagP, &mut s));
    assert!(r == !a, "Not negates");
    assert!(once(1), "Not evaluates its operand exactly once");
    vcover!(r, "true");
    std::mem::forget((s, f));
}
/// @h tier=thorough bound="Or over 3 operands, all answers" unwind=5 cost=9 timeout=2400 mem=28
#[cfg_attr(kani, kani::proof)]
#[cfg_attr(kani, kani::unwind(5))]
pub fn h_c10_or3() {
    let (a, b, c) = setup_ops();
    let f = Or::new([op::<0>(), op::<1>(), op::<2>()]);
    let mut s: State<TagP> = State::new();
    lifecycle(&*f, &mut s, 3);
    let r = ok_bool(f.evaluate(&TagP, &mut s));
    assert!(r == (a || b || c), "Or combines like the Boolean operator");
    assert!(once(3), "Or evaluates every operand exactly once per evaluation (no short-circuit)");
    vcover!(a && !c, "first true, later false");
    std::mem::forget((s, f));
}
/// @h tier=thorough bound="formula !(o0 & o1) | o2 built with the operators, all answers" unwind=5 cost=9 timeout=2400 mem=28
#[cfg_attr(kani, kani::proof)]
#[cfg_attr(kani, kani::unwind(5))]
pub fn h_c10_formula_ops() {
    let (a, b, c) = setup_ops();
    let f = !(op::<0>() & op::<1>()) | op::<2>();
    let mut s: State<TagP> = State::new();
    lifecycle(&*f, &mut s, 3);
    let r = ok_bool(f.evaluate(&TagP, &mut s));
    assert!(r == (!(a && b) || c), "nested formulas combine like the Boolean operators");
    assert!(once(3), "every operand of a nested formula is evaluated exactly once");
    vcover!(r, "true");
    vcover!(!r, "false");
    std::mem::forget((s, f));
}
/// @h tier=thorough bound="Not(Or(o0, Not(o1))), all answers" unwind=5 cost=9 timeout=2400 mem=28
#[cfg_attr(kani, kani::proof)]
#[cfg_attr(kani, kani::unwind(5))]
pub fn h_c10_formula_not_or() {
    let (a, b, _c) = setup_ops();
    let f = Not::new(Or::new([op::<0>(), Not::new(op::<1>())]));
    let mut s: State<TagP> = State::new();
    lifecycle(&*f, &mut s, 2);
    let r = ok_bool(f.evaluate(&TagP, &mut s));
    assert!(r == !(a || !b), "Not/Or combine like the Boolean operators");
    assert!(once(2), "every operand is evaluated exactly once");
    vcover!(r, "true");
    std::mem::forget((s, f));
}

// ---- And / Or with a single operand type (keeps the set of `dyn Condition` implementors at two) ----

static mut SEQ: [u8; 4] = [9; 4];
static mut CALLS: usize = 0;
static mut ANS4: [bool; 4] = [false; 4];
#[derive(Clone, Serialize)]
pub struct Opd {
    id: u8,
}
impl Condition<TagP> for Opd {
    fn evaluate(&self, _p: &TagP, _s: &mut State<TagP>) -> ExecResult<bool> {
        unsafe {
            let k = CALLS;
            CALLS += 1;
            if k < 4 {
                SEQ[k] = self.id;
                Ok(ANS4[k])
            } else {
                Ok(false)
            }
        }
    }
}
fn opd(id: u8) -> Box<dyn Condition<TagP>> {
    Box::new(Opd { id })
}
fn junction_setup(k: usize) -> ([bool; 4], Vec<Box<dyn Condition<TagP>>>) {
    let a = [sym::bool(), sym::bool(), sym::bool(), false];
    unsafe {
        ANS4 = a;
        CALLS = 0;
        SEQ = [9; 4];
    }
    let ops: Vec<Box<dyn Condition<TagP>>> = if k == 2 { vec![opd(0), opd(1)] } else { vec![opd(0), opd(1), opd(2)] };
    (a, ops)
}
fn junction_check(r: bool, want: bool, k: usize) {
    assert!(r == want, "And/Or combine the operand results as the Boolean operators do");
    unsafe {
        assert!(CALLS == k, "every operand is evaluated exactly once per evaluation (no short-circuit)");
        assert!(SEQ[0] == 0 && SEQ[1] == 1 && (k == 2 || SEQ[2] == 2), "each operand once, in order");
    }
}
/// Only `And` (resp. `Or`) and the operand type implement `dyn Condition` in these harnesses, and
/// the spurious self-dispatch of And/Or::evaluate is capped by a per-function recursion bound
/// (`reclimit`, passed to CBMC as --unwindset; unwinding assertions stay on).
fn and_k(k: usize) {
    let (a, ops) = junction_setup(k);
    let f = And::new(ops);
    let mut s: State<TagP> = State::new();
    let r = ok_bool(f.evaluate(&TagP, &mut s));
    junction_check(r, a[0] && a[1] && (k == 2 || a[2]), k);
    vcover!(!a[0] && a[1], "first false, later true");
    std::mem::forget((s, f));
}
fn or_k(k: usize) {
    let (a, ops) = junction_setup(k);
    let f = Or::new(ops);
    let mut s: State<TagP> = State::new();
    let r = ok_bool(f.evaluate(&TagP, &mut s));
    junction_check(r, a[0] || a[1] || (k == 3 && a[2]), k);
    vcover!(a[0] && !a[1], "first true, later false");
    std::mem::forget((s, f));
}
/// @h tier=quick bound="And over 2 operands, all answers" unwind=3 cost=5 mem=12 timeout=900 reclimit="<mahf::conditions::And<.*> as mahf::conditions::Condition<.*>>::evaluate=1"
#[cfg_attr(kani, kani::proof)]
#[cfg_attr(kani, kani::unwind(3))]
pub fn h_c10_and2s() {
    and_k(2)
}
/// @h tier=quick bound="Or over 2 operands, all answers" unwind=3 cost=5 mem=12 timeout=900 reclimit="<mahf::conditions::Or<.*> as mahf::conditions::Condition<.*>>::evaluate=1"
#[cfg_attr(kani, kani::proof)]
#[cfg_attr(kani, kani::unwind(3))]
pub fn h_c10_or2s() {
    or_k(2)
}
/// @h tier=thorough bound="Or over 3 operands, all answers" unwind=4 cost=9 mem=40 timeout=3000 reclimit="<mahf::conditions::Or<.*> as mahf::conditions::Condition<.*>>::evaluate=1"
#[cfg_attr(kani, kani::proof)]
#[cfg_attr(kani, kani::unwind(4))]
pub fn h_c10_or3s() {
    or_k(3)
}
/// @h tier=thorough bound="And over 3 operands, all answers" unwind=4 cost=9 mem=40 timeout=3000 reclimit="<mahf::conditions::And<.*> as mahf::conditions::Condition<.*>>::evaluate=1"
#[cfg_attr(kani, kani::proof)]
#[cfg_attr(kani, kani::unwind(4))]
pub fn h_c10_and3s() {
    and_k(3)
}

// ---- loops make exactly n passes -----------------------------------------------------------------------------------------

static mut PASSES: u32 = 0;
#[derive(Clone, Serialize)]
pub struct Body;
impl Component<TagP> for Body {
    fn execute(&self, _p: &TagP, _s: &mut State<TagP>) -> ExecResult<()> {
        unsafe { PASSES += 1 };
        Ok(())
    }
}
/// Counting wrapper around the real `LessThanN` (held by value: static dispatch, so that the only
/// `dyn Condition` implementor in the harness is this wrapper).
#[derive(Clone, Serialize)]
pub struct CountLess {
    inner: LessThanN<ValueOf<Iterations>>,
}
impl Condition<TagP> for CountLess {
    fn init(&self, p: &TagP, s: &mut State<TagP>) -> ExecResult<()> {
        unsafe { INITS[0] += 1 };
        Condition::<TagP>::init(&self.inner, p, s)
    }
    fn evaluate(&self, p: &TagP, s: &mut State<TagP>) -> ExecResult<bool> {
        unsafe { EVALS[0] += 1 };
        Condition::<TagP>::evaluate(&self.inner, p, s)
    }
}
fn loop_n(n: u32) {
    unsafe {
        PASSES = 0;
        EVALS = [0; 3];
        INITS = [0; 3];
    }
    let cond: Box<dyn Condition<TagP>> = Box::new(CountLess { inner: LessThanN::from_params(n, ValueOf::<Iterations>::new()) });
    // the body is handed over as a boxed component (no Block in between)
    let l = Loop::new(cond, Box::new(Body) as Box<dyn Component<TagP>>);
    let mut s: State<TagP> = State::new();
    assert!(l.init(&TagP, &mut s).is_ok(), "loop init");
    assert!(l.execute(&TagP, &mut s).is_ok(), "loop execute");
    unsafe {
        assert!(PASSES == n, "an iteration-bounded loop makes exactly n passes");
        assert!(EVALS[0] as u32 == n + 1, "and tests its condition n+1 times");
        assert!(INITS[0] == 2, "the condition is initialised with the loop and re-initialised on entry");
    }
    assert!(s.try_get_value::<Iterations>().ok() == Some(n), "the pass counter equals n");
    if n >= 1 {
        assert!(s.try_get_value::<Progress<ValueOf<Iterations>>>().ok() == Some(1.0), "final progress is 1");
    }
    vcover!(true, "reached");
    std::mem::forget((s, l));
}
/// @h tier=quick bound="n = 0" unwind=3 cost=6 mem=12 timeout=600
#[cfg_attr(kani, kani::proof)]
#[cfg_attr(kani, kani::unwind(3))]
pub fn h_c10_loop_0() {
    loop_n(0)
}
/// @h tier=quick bound="n = 1" unwind=3 cost=7 mem=16 timeout=900
#[cfg_attr(kani, kani::proof)]
#[cfg_attr(kani, kani::unwind(3))]
pub fn h_c10_loop_1() {
    loop_n(1)
}
/// @h tier=quick bound="n = 2" unwind=4 cost=7 mem=16 timeout=900
#[cfg_attr(kani, kani::proof)]
#[cfg_attr(kani, kani::unwind(4))]
pub fn h_c10_loop_2() {
    loop_n(2)
}
/// @h tier=quick bound="n = 3" unwind=5 cost=8 mem=16 timeout=900
#[cfg_attr(kani, kani::proof)]
#[cfg_attr(kani, kani::unwind(5))]
pub fn h_c10_loop_3() {
    loop_n(3)
}
