//! shimcheck — harnesses not written yet.
