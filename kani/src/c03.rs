//! c03 — harnesses not written yet.
