//! C03 — configurations execute with structured-program semantics and a fixed lifecycle.
//! Code: mahf::Configuration::{run,builder}, ConfigurationBuilder::{do_,while_,if_,if_else_,scope_,build}, mahf::components::{Block,Loop,Branch,Scope}::{init,require,execute}
//! Code: mahf::State::with_inner_state, mahf::state::StateReq::require, mahf::state::common::Iterations
//! Out: trees with more than 4 constructs, loops with more than 2 passes per entry, custom Scope state_init/states_merge closures; error *messages* (the eyre shim drops them)
//! Assume: per-function recursion bounds (reclimit -> CBMC --unwindset, unwinding assertions on): Loop/Scope::{init,require,execute} at their nesting depth, StateRegistry::find/find_mut at scope depth + 1 — without them the engine unwinds the spurious self-dispatch of every `dyn Component` call and the parent-chain walk of every registry look-up to the global bound (the loop trees then need > 28 GB)
//! Assume: leaves and conditions are harness types that log (phase, id) events; condition outcomes are symbolic scripts (2 symbolic answers, then false); the fault point is a symbolic choice among the listed events of each tree; expected traces come from a reference interpreter over the same tree description
use better_any::{Tid, TidAble};
use derive_more::{Deref, DerefMut};
use mahf::components::{Block, Branch, Component, Loop, Scope};
use mahf::conditions::Condition;
use mahf::state::common::Iterations;
use mahf::state::StateReq;
use mahf::{Configuration, CustomState, ExecResult, State};
use serde::Serialize;

use crate::problems::TagP;
use crate::sym;

const INIT: u8 = 0;
const REQ: u8 = 1;
const EXEC: u8 = 2;
const EVAL: u8 = 3;
const NONE: (u8, u8) = (9, 0);

const CAP: usize = 24;
static mut TRACE: [(u8, u8); CAP] = [(0, 0); CAP];
static mut TLEN: usize = 0;
static mut WANT: [(u8, u8); CAP] = [(0, 0); CAP];
static mut WLEN: usize = 0;
/// scripts of the conditions 10 and 11: two symbolic answers each, then false
static mut SCRIPT: [[bool; 2]; 2] = [[false; 2]; 2];
static mut POS: [usize; 2] = [0; 2];
static mut WPOS: [usize; 2] = [0; 2];
static mut FAULT: (u8, u8) = NONE;
/// number of symbolic answers a script gives before it answers false (loop pass bound)
static mut MAXTRUE: usize = 2;

fn log(ev: (u8, u8)) -> bool {
    unsafe {
        if TLEN < CAP {
            TRACE[TLEN] = ev;
        }
        TLEN += 1;
        FAULT == ev
    }
}
fn want(ev: (u8, u8)) -> bool {
    unsafe {
        if WLEN < CAP {
            WANT[WLEN] = ev;
        }
        WLEN += 1;
        FAULT == ev
    }
}

#[derive(Tid, Deref, DerefMut)]
pub struct Counter(pub u32);
impl CustomState<'_> for Counter {}
#[derive(Tid, Deref, DerefMut)]
pub struct Mark1(pub u8);
impl CustomState<'_> for Mark1 {}
#[derive(Tid, Deref, DerefMut)]
pub struct Mark2(pub u8);
impl CustomState<'_> for Mark2 {}
#[derive(Tid)]
pub struct Missing;
impl CustomState<'_> for Missing {}

/// Leaf component (id = const parameter): logs every lifecycle call; `execute` bumps the caller-visible `Counter`
/// (non-shadowed outer state) and inserts `Mark<id>` into the scope it runs in.
/// id 7 additionally requires a state nobody provides; id 6 shadows `Counter` in its scope;
/// id 4 is the light leaf used inside loops (no mark insertion: every registry insertion costs
/// the engine ~50 K steps per loop pass).
#[derive(Clone, Serialize)]
pub struct Leaf<const ID: u8>;
fn fail() -> ExecResult<()> {
    Err(eyre::eyre!("injected fault"))
}
impl<const ID: u8> Component<TagP> for Leaf<ID> {
    fn init(&self, _p: &TagP, _s: &mut State<TagP>) -> ExecResult<()> {
        if log((INIT, ID)) {
            return fail();
        }
        Ok(())
    }
    fn require(&self, _p: &TagP, req: &StateReq<TagP>) -> ExecResult<()> {
        if log((REQ, ID)) {
            return fail();
        }
        if ID == 7 {
            req.require::<Self, Missing>()?;
        }
        Ok(())
    }
    fn execute(&self, _p: &TagP, s: &mut State<TagP>) -> ExecResult<()> {
        if log((EXEC, ID)) {
            return fail();
        }
        if ID == 6 {
            s.insert(Counter(1000));
        } else {
            *s.try_borrow_value_mut::<Counter>()? += 1;
        }
        if ID == 1 {
            s.insert(Mark1(1));
        }
        if ID == 2 {
            s.insert(Mark2(2));
        }
        Ok(())
    }
}
fn leaf<const ID: u8>() -> Box<dyn Component<TagP>> {
    Box::new(Leaf::<ID>)
}

/// Scripted condition (ids 10, 11). The id is a const parameter so that the script position is
/// a constant index for the engine (a field read through `dyn` is not folded).
#[derive(Clone, Serialize)]
pub struct Script<const ID: u8>;
impl<const ID: u8> Condition<TagP> for Script<ID> {
    fn init(&self, _p: &TagP, _s: &mut State<TagP>) -> ExecResult<()> {
        unsafe { POS[(ID - 10) as usize] = 0 };
        if log((INIT, ID)) {
            return fail();
        }
        Ok(())
    }
    fn require(&self, _p: &TagP, _r: &StateReq<TagP>) -> ExecResult<()> {
        if log((REQ, ID)) {
            return fail();
        }
        Ok(())
    }
    fn evaluate(&self, _p: &TagP, _s: &mut State<TagP>) -> ExecResult<bool> {
        if log((EVAL, ID)) {
            return Err(eyre::eyre!("injected fault"));
        }
        unsafe {
            let c = (ID - 10) as usize;
            let r = if POS[c] < MAXTRUE { SCRIPT[c][POS[c]] } else { false };
            POS[c] += 1;
            Ok(r)
        }
    }
}
fn cond<const ID: u8>() -> Box<dyn Condition<TagP>> {
    Box::new(Script::<ID>)
}

// ---- reference semantics ---------------------------------------------------------------------------
// The expected trace of each tree is written down as the structured program it denotes, using the
// helpers below (a generic recursive interpreter over a tree value was tried first: CBMC does not
// fold the matches on a static tree and unwinds the recursion 1000+ times). NOTE also that the
// real configuration of each tree is built inside its harness with exactly the builder calls it
// needs, so that only the control-flow components it uses are reachable for `dyn` dispatch.
// Loop trees are built with `Loop::new`/`Scope::new_with` and a boxed body directly: the builder
// wraps every body in a `Block` (a Vec of trait objects), and Block + Loop + leaf as candidates
// of every `dyn` call made the loop harnesses run out of 28 GB.

/// Expected effects besides the trace.
struct Fx {
    counter: u32,        // caller-visible Counter
    iters: u32,          // Iterations in the caller's scope
    iters_present: bool, // a loop was initialised in the caller's scope
    mark1_root: bool,
    mark2_root: bool,
}
type R = Result<(), ()>;
fn e(ph: u8, id: u8) -> R {
    if ph == INIT && id >= 10 {
        unsafe { WPOS[(id - 10) as usize] = 0 };
    }
    if want((ph, id)) {
        Err(())
    } else {
        Ok(())
    }
}
fn ans(c: u8) -> Result<bool, ()> {
    if want((EVAL, c)) {
        return Err(());
    }
    unsafe {
        let i = (c - 10) as usize;
        let r = if WPOS[i] < MAXTRUE { SCRIPT[i][WPOS[i]] } else { false };
        WPOS[i] += 1;
        Ok(r)
    }
}
/// A leaf executes: bumps the caller-visible counter unless it is shadowed in the current scope;
/// its mark stays only if it ran outside every scope.
fn x(fx: &mut Fx, id: u8, in_scope: bool, shadowed: bool) -> R {
    e(EXEC, id)?;
    if !shadowed {
        fx.counter += 1;
    }
    if !in_scope && id == 1 {
        fx.mark1_root = true;
    }
    if !in_scope && id == 2 {
        fx.mark2_root = true;
    }
    Ok(())
}

fn want_seq(fx: &mut Fx) -> R {
    e(INIT, 1)?;
    e(INIT, 2)?;
    e(REQ, 1)?;
    e(REQ, 2)?;
    x(fx, 1, false, false)?;
    x(fx, 2, false, false)
}
fn want_missing(_fx: &mut Fx) -> R {
    e(INIT, 1)?;
    e(INIT, 7)?;
    e(REQ, 1)?;
    e(REQ, 7)?;
    Err(()) // leaf 7 requires a state nobody provides
}
fn want_while(fx: &mut Fx) -> R {
    fx.iters_present = true;
    e(INIT, 10)?;
    e(INIT, 4)?;
    e(REQ, 10)?;
    e(REQ, 4)?;
    e(INIT, 10)?; // the loop re-initialises its condition on entry
    while ans(10)? {
        x(fx, 4, false, false)?;
        fx.iters += 1;
    }
    Ok(())
}
fn want_ifelse(fx: &mut Fx) -> R {
    e(INIT, 10)?;
    e(INIT, 1)?;
    e(INIT, 2)?;
    e(REQ, 10)?;
    e(REQ, 1)?;
    e(REQ, 2)?;
    if ans(10)? {
        x(fx, 1, false, false)
    } else {
        x(fx, 2, false, false)
    }
}
fn want_if(fx: &mut Fx) -> R {
    e(INIT, 10)?;
    e(INIT, 1)?;
    e(INIT, 2)?;
    e(REQ, 10)?;
    e(REQ, 1)?;
    e(REQ, 2)?;
    if ans(10)? {
        x(fx, 1, false, false)?;
    }
    x(fx, 2, false, false)
}
fn want_scope(fx: &mut Fx) -> R {
    // L3; scope{L1}; L2 — the scope body is set up on entry, not with the rest
    e(INIT, 3)?;
    e(INIT, 2)?;
    e(REQ, 3)?;
    e(REQ, 2)?;
    x(fx, 3, false, false)?;
    e(INIT, 1)?;
    e(REQ, 1)?;
    x(fx, 1, true, false)?;
    x(fx, 2, false, false)
}
fn want_shadow(fx: &mut Fx) -> R {
    // scope{L6; L1}; L2
    e(INIT, 2)?;
    e(REQ, 2)?;
    e(INIT, 6)?;
    e(INIT, 1)?;
    e(REQ, 6)?;
    e(REQ, 1)?;
    e(EXEC, 6)?; // shadows Counter inside the scope
    x(fx, 1, true, true)?;
    x(fx, 2, false, false)
}
fn want_while_scope(fx: &mut Fx) -> R {
    fx.iters_present = true;
    e(INIT, 10)?;
    e(REQ, 10)?;
    e(INIT, 10)?;
    while ans(10)? {
        e(INIT, 4)?;
        e(REQ, 4)?;
        x(fx, 4, true, false)?;
        fx.iters += 1;
    }
    Ok(())
}
fn want_nested(fx: &mut Fx) -> R {
    fx.iters_present = true;
    e(INIT, 10)?;
    e(INIT, 11)?;
    e(INIT, 4)?;
    e(REQ, 10)?;
    e(REQ, 11)?;
    e(REQ, 4)?;
    e(INIT, 10)?;
    while ans(10)? {
        e(INIT, 11)?;
        while ans(11)? {
            x(fx, 4, false, false)?;
            fx.iters += 1;
        }
        fx.iters += 1;
    }
    Ok(())
}
fn want_scope_while(fx: &mut Fx) -> R {
    // scope{while(c10){L1}} — the loop counter lives (and dies) inside the scope
    e(INIT, 10)?;
    e(INIT, 4)?;
    e(REQ, 10)?;
    e(REQ, 4)?;
    e(INIT, 10)?;
    while ans(10)? {
        x(fx, 4, true, false)?;
    }
    Ok(())
}

fn want_while_scope_while(fx: &mut Fx) -> R {
    // while(c10){scope{while(c11){L4}}} — the inner loop's counter is created in (and dies with)
    // the scope; the outer loop's counter in the caller's scope counts outer passes only
    fx.iters_present = true;
    e(INIT, 10)?;
    e(REQ, 10)?;
    e(INIT, 10)?;
    while ans(10)? {
        e(INIT, 11)?;
        e(INIT, 4)?;
        e(REQ, 11)?;
        e(REQ, 4)?;
        e(INIT, 11)?;
        while ans(11)? {
            x(fx, 4, true, false)?;
        }
        fx.iters += 1;
    }
    Ok(())
}

/// Drive one tree through the real `Configuration::run` and compare with its reference semantics.
fn run_tree(want_fn: fn(&mut Fx) -> R, faults: &[(u8, u8)], config: Configuration<TagP>) {
    run_tree_n(want_fn, faults, config, 2)
}
fn run_tree_n(want_fn: fn(&mut Fx) -> R, faults: &[(u8, u8)], config: Configuration<TagP>, maxtrue: usize) {
    unsafe {
        MAXTRUE = maxtrue;
        SCRIPT = [[sym::bool(), sym::bool()], [sym::bool(), sym::bool()]];
        let k = sym::u8() as usize;
        FAULT = if k < faults.len() { faults[k] } else { NONE };
        TLEN = 0;
        WLEN = 0;
    }
    let mut state: State<TagP> = State::new();
    state.insert(Counter(0));
    let r = config.run(&TagP, &mut state);

    let mut fx = Fx { counter: 0, iters: 0, iters_present: false, mark1_root: false, mark2_root: false };
    let want_r = want_fn(&mut fx);

    assert!(r.is_err() == want_r.is_err(), "the run fails exactly when the structured program fails (first error is returned)");
    unsafe {
        assert!(TLEN == WLEN && TLEN <= CAP, "exactly the expected number of lifecycle events");
        // unrolled (a loop here would force the unwind bound of every other loop up to CAP)
        macro_rules! same { ($($i:expr),*) => { $( assert!($i >= TLEN || TRACE[$i] == WANT[$i], "components run in the order of the corresponding structured program"); )* } }
        same!(0, 1, 2, 3, 4, 5, 6, 7, 8, 9, 10, 11, 12, 13, 14, 15, 16, 17, 18, 19, 20, 21, 22, 23);
    }
    // the caller's state: same depth, nothing removed, scope-local state gone
    assert!(state.parent().is_none(), "every scope that was opened is closed again");
    assert!(state.try_get_value::<Counter>().ok() == Some(fx.counter), "caller's state is intact: writes to non-shadowed outer state persist, shadowed state is restored");
    assert!(state.contains::<Mark1>() == fx.mark1_root, "state created inside a scope is gone afterwards; state created outside persists (Mark1)");
    assert!(state.contains::<Mark2>() == fx.mark2_root, "state created inside a scope is gone afterwards; state created outside persists (Mark2)");
    if fx.iters_present {
        assert!(state.try_get_value::<Iterations>().ok() == Some(fx.iters), "the loop counts completed passes");
    }
    vcover!(r.is_err(), "a failing run");
    vcover!(r.is_ok(), "a successful run");
    std::mem::forget(state);
    std::mem::forget(config);
}


/// @h tier=quick bound="tree: L1; L2 — fault in {none, init L2, require L1, execute L1, execute L2}" unwind=5 cost=4 mem=10
#[cfg_attr(kani, kani::proof)]
#[cfg_attr(kani, kani::unwind(5))]
pub fn h_c03_seq() {
    run_tree(want_seq, &[(INIT, 2), (REQ, 1), (EXEC, 1), (EXEC, 2)], Configuration::builder().do_(leaf::<1>()).do_(leaf::<2>()).build());
}

/// @h tier=quick bound="tree: L1; L7 (requires a missing state) — nothing executes" unwind=5 cost=4 mem=10 dead="a successful run"
#[cfg_attr(kani, kani::proof)]
#[cfg_attr(kani, kani::unwind(5))]
pub fn h_c03_missing_requirement() {
    run_tree(want_missing, &[], Configuration::builder().do_(leaf::<1>()).do_(leaf::<7>()).build());
    unsafe {
        macro_rules! noexec { ($($i:expr),*) => { $( assert!($i >= TLEN || TRACE[$i].0 != EXEC, "a failed requirement means nothing executes"); )* } }
        noexec!(0, 1, 2, 3, 4, 5, 6, 7);
    }
}

/// @h tier=quick bound="tree: while(c10){L1} — 0 or 1 pass (symbolic), fault in {none, execute L1}" unwind=3 cost=9 mem=16 timeout=900 reclimit="<mahf::components::(control_flow::)?Loop<.*> as .*Component<.*>>::(init|require|execute)=1;mahf::state::(registry::)?StateRegistry::<.*>::find(_mut)?::<.*>=2"
#[cfg_attr(kani, kani::proof)]
#[cfg_attr(kani, kani::unwind(3))]
pub fn h_c03_while() {
    run_tree_n(want_while, &[(EXEC, 4)], Configuration::new(Loop::new(cond::<10>(), leaf::<4>())), 1);
}
/// @h tier=quick bound="tree: while(c10){L1} — <= 2 passes (symbolic), fault in {none, execute L1, evaluate c10}" unwind=4 cost=9 mem=16 timeout=900 reclimit="<mahf::components::(control_flow::)?Loop<.*> as .*Component<.*>>::(init|require|execute)=1;mahf::state::(registry::)?StateRegistry::<.*>::find(_mut)?::<.*>=2"
#[cfg_attr(kani, kani::proof)]
#[cfg_attr(kani, kani::unwind(4))]
pub fn h_c03_while_2() {
    run_tree_n(want_while, &[(EXEC, 4), (EVAL, 10)], Configuration::new(Loop::new(cond::<10>(), leaf::<4>())), 2);
}

/// @h tier=quick bound="tree: if(c10){L1}else{L2} — symbolic outcome, fault in {none, execute L2}" unwind=5 cost=5 mem=12 timeout=900
#[cfg_attr(kani, kani::proof)]
#[cfg_attr(kani, kani::unwind(5))]
pub fn h_c03_ifelse() {
    run_tree(want_ifelse, &[(EXEC, 2)], Configuration::builder().if_else_(cond::<10>(), |b| b.do_(leaf::<1>()), |b| b.do_(leaf::<2>())).build());
}

/// @h tier=quick bound="tree: if(c10){L1}; L2 — symbolic outcome" unwind=5 cost=5 mem=12 timeout=900 dead="a failing run"
#[cfg_attr(kani, kani::proof)]
#[cfg_attr(kani, kani::unwind(5))]
pub fn h_c03_if() {
    run_tree(want_if, &[], Configuration::builder().if_(cond::<10>(), |b| b.do_(leaf::<1>())).do_(leaf::<2>()).build());
}

/// @h tier=quick bound="tree: L3; scope{L1}; L2 — fault in {none, execute L1 (inside the scope), init L1, execute L2}" unwind=5 cost=7 mem=14 timeout=900
#[cfg_attr(kani, kani::proof)]
#[cfg_attr(kani, kani::unwind(5))]
pub fn h_c03_scope() {
    run_tree(want_scope, &[(EXEC, 1), (INIT, 1), (EXEC, 2)], Configuration::builder().do_(leaf::<3>()).scope_(|b| b.do_(leaf::<1>())).do_(leaf::<2>()).build());
}

/// @h tier=quick bound="tree: scope{L6 (shadows Counter); L1}; L2 — shadowed outer state is restored" unwind=5 cost=7 mem=14 timeout=900 dead="a failing run"
#[cfg_attr(kani, kani::proof)]
#[cfg_attr(kani, kani::unwind(5))]
pub fn h_c03_scope_shadow() {
    run_tree(want_shadow, &[], Configuration::builder().scope_(|b| b.do_(leaf::<6>()).do_(leaf::<1>())).do_(leaf::<2>()).build());
}

/// @h tier=quick bound="tree: while(c10){scope{L1}} — scope body initialised on every entry; fault in {none, execute L1}" unwind=4 cost=8 mem=16 timeout=900 reclimit="<mahf::components::(control_flow::)?Loop<.*> as .*Component<.*>>::(init|require|execute)=1;<mahf::components::(control_flow::)?Scope<.*> as .*Component<.*>>::(init|require|execute)=1;mahf::state::(registry::)?StateRegistry::<.*>::find(_mut)?::<.*>=3"
#[cfg_attr(kani, kani::proof)]
#[cfg_attr(kani, kani::unwind(4))]
pub fn h_c03_while_scope() {
    run_tree(want_while_scope, &[(EXEC, 4)], Configuration::new(Loop::new(cond::<10>(), Scope::new_with(|_| Ok(()), leaf::<4>(), |_, _| Ok(())))));
}

/// @h tier=quick bound="tree: while(c10){while(c11){L1}} — both scripts symbolic (<= 2x2 passes), shared pass counter" unwind=4 cost=9 mem=20 timeout=1200 dead="a failing run" reclimit="<mahf::components::(control_flow::)?Loop<.*> as .*Component<.*>>::(init|require|execute)=2;mahf::state::(registry::)?StateRegistry::<.*>::find(_mut)?::<.*>=2"
#[cfg_attr(kani, kani::proof)]
#[cfg_attr(kani, kani::unwind(4))]
pub fn h_c03_nested_while() {
    run_tree(want_nested, &[], Configuration::new(Loop::new(cond::<10>(), Loop::new(cond::<11>(), leaf::<4>()))));
}

/// @h tier=quick bound="tree: scope{while(c10){L1}} — fault in {none, execute L1}" unwind=4 cost=9 mem=16 timeout=900 reclimit="<mahf::components::(control_flow::)?Loop<.*> as .*Component<.*>>::(init|require|execute)=1;<mahf::components::(control_flow::)?Scope<.*> as .*Component<.*>>::(init|require|execute)=1;mahf::state::(registry::)?StateRegistry::<.*>::find(_mut)?::<.*>=3"
#[cfg_attr(kani, kani::proof)]
#[cfg_attr(kani, kani::unwind(4))]
pub fn h_c03_scope_while() {
    run_tree(want_scope_while, &[(EXEC, 4)], Configuration::new(Scope::new_with(|_| Ok(()), Loop::new(cond::<10>(), leaf::<4>()), |_, _| Ok(()))));
}

/// @h tier=quick bound="tree: while(c10){scope{while(c11){L1}}} — <= 1x1 passes (both scripts symbolic): a loop inside a scope inside a loop has its own counter, the outer counter counts outer passes only; fault in {none, execute L1}" unwind=4 cost=9 mem=24 timeout=1200 reclimit="<mahf::components::(control_flow::)?Loop<.*> as .*Component<.*>>::(init|require|execute)=2;<mahf::components::(control_flow::)?Scope<.*> as .*Component<.*>>::(init|require|execute)=1;mahf::state::(registry::)?StateRegistry::<.*>::find(_mut)?::<.*>=3"
#[cfg_attr(kani, kani::proof)]
#[cfg_attr(kani, kani::unwind(4))]
pub fn h_c03_while_scope_while() {
    run_tree_n(want_while_scope_while, &[(EXEC, 4)], Configuration::new(Loop::new(cond::<10>(), Scope::new_with(|_| Ok(()), Loop::new(cond::<11>(), leaf::<4>()), |_, _| Ok(())))), 1);
}
