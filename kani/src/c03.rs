//! C03 — configurations execute with structured-program semantics and a fixed lifecycle.
//! Code: mahf::Configuration::{run,builder}, ConfigurationBuilder::{do_,while_,if_,if_else_,scope_,build}, mahf::components::{Block,Loop,Branch,Scope}::{init,require,execute}
//! Code: mahf::State::with_inner_state, mahf::state::StateReq::require, mahf::state::common::Iterations
//! Out: trees with more than 4 constructs, loops with more than 2 passes per entry, custom Scope state_init/states_merge closures; error *messages* (the eyre shim drops them)
//! Assume: leaves and conditions are harness types that log (phase, id) events; condition outcomes are symbolic scripts (2 symbolic answers, then false); the fault point is a symbolic choice among the listed events of each tree; expected traces come from a reference interpreter over the same tree description
use better_any::{Tid, TidAble};
use derive_more::{Deref, DerefMut};
use mahf::components::{Block, Branch, Component, Loop, Scope};
use mahf::conditions::Condition;
use mahf::state::common::Iterations;
use mahf::state::StateReq;
use mahf::{Configuration, CustomState, ExecResult, State};
use serde::Serialize;

use crate::problems::TagP;
use crate::sym;

const INIT: u8 = 0;
const REQ: u8 = 1;
const EXEC: u8 = 2;
const EVAL: u8 = 3;
const NONE: (u8, u8) = (9, 0);

const CAP: usize = 40;
static mut TRACE: [(u8, u8); CAP] = [(0, 0); CAP];
static mut TLEN: usize = 0;
static mut WANT: [(u8, u8); CAP] = [(0, 0); CAP];
static mut WLEN: usize = 0;
/// scripts of the conditions 10 and 11: two symbolic answers each, then false
static mut SCRIPT: [[bool; 2]; 2] = [[false; 2]; 2];
static mut POS: [usize; 2] = [0; 2];
static mut WPOS: [usize; 2] = [0; 2];
static mut FAULT: (u8, u8) = NONE;

fn log(ev: (u8, u8)) -> bool {
    unsafe {
        if TLEN < CAP {
            TRACE[TLEN] = ev;
        }
        TLEN += 1;
        FAULT == ev
    }
}
fn want(ev: (u8, u8)) -> bool {
    unsafe {
        if WLEN < CAP {
            WANT[WLEN] = ev;
        }
        WLEN += 1;
        FAULT == ev
    }
}

#[derive(Tid, Deref, DerefMut)]
pub struct Counter(pub u32);
impl CustomState<'_> for Counter {}
#[derive(Tid, Deref, DerefMut)]
pub struct Mark1(pub u8);
impl CustomState<'_> for Mark1 {}
#[derive(Tid, Deref, DerefMut)]
pub struct Mark2(pub u8);
impl CustomState<'_> for Mark2 {}
#[derive(Tid)]
pub struct Missing;
impl CustomState<'_> for Missing {}

/// Leaf component: logs every lifecycle call; `execute` bumps the caller-visible `Counter`
/// (non-shadowed outer state) and inserts `Mark<id>` into the scope it runs in.
/// id 7 additionally requires a state nobody provides; id 6 shadows `Counter` in its scope.
#[derive(Clone, Serialize)]
pub struct Leaf {
    id: u8,
}
fn fail() -> ExecResult<()> {
    Err(eyre::eyre!("injected fault"))
}
impl Component<TagP> for Leaf {
    fn init(&self, _p: &TagP, _s: &mut State<TagP>) -> ExecResult<()> {
        if log((INIT, self.id)) {
            return fail();
        }
        Ok(())
    }
    fn require(&self, _p: &TagP, req: &StateReq<TagP>) -> ExecResult<()> {
        if log((REQ, self.id)) {
            return fail();
        }
        if self.id == 7 {
            req.require::<Self, Missing>()?;
        }
        Ok(())
    }
    fn execute(&self, _p: &TagP, s: &mut State<TagP>) -> ExecResult<()> {
        if log((EXEC, self.id)) {
            return fail();
        }
        if self.id == 6 {
            s.insert(Counter(1000));
        } else {
            *s.try_borrow_value_mut::<Counter>()? += 1;
        }
        if self.id == 1 {
            s.insert(Mark1(1));
        }
        if self.id == 2 {
            s.insert(Mark2(2));
        }
        Ok(())
    }
}
fn leaf(id: u8) -> Box<dyn Component<TagP>> {
    Box::new(Leaf { id })
}

/// Scripted condition (ids 10, 11).
#[derive(Clone, Serialize)]
pub struct Script {
    id: u8,
}
impl Condition<TagP> for Script {
    fn init(&self, _p: &TagP, _s: &mut State<TagP>) -> ExecResult<()> {
        unsafe { POS[(self.id - 10) as usize] = 0 };
        if log((INIT, self.id)) {
            return fail();
        }
        Ok(())
    }
    fn require(&self, _p: &TagP, _r: &StateReq<TagP>) -> ExecResult<()> {
        if log((REQ, self.id)) {
            return fail();
        }
        Ok(())
    }
    fn evaluate(&self, _p: &TagP, _s: &mut State<TagP>) -> ExecResult<bool> {
        if log((EVAL, self.id)) {
            return Err(eyre::eyre!("injected fault"));
        }
        unsafe {
            let c = (self.id - 10) as usize;
            let r = if POS[c] < 2 { SCRIPT[c][POS[c]] } else { false };
            POS[c] += 1;
            Ok(r)
        }
    }
}
fn cond(id: u8) -> Box<dyn Condition<TagP>> {
    Box::new(Script { id })
}

// ---- tree description, real construction, reference interpreter -----------------------------------

#[derive(Clone, Copy)]
enum T {
    Leaf(u8),
    Seq2(&'static T, &'static T),
    Seq3(&'static T, &'static T, &'static T),
    While(u8, &'static T),
    If(u8, &'static T),
    IfElse(u8, &'static T, &'static T),
    Scope(&'static T),
}

fn build(t: &T) -> Box<dyn Component<TagP>> {
    match *t {
        T::Leaf(id) => leaf(id),
        T::Seq2(a, b) => Block::new(vec![build(a), build(b)]),
        T::Seq3(a, b, c) => Block::new(vec![build(a), build(b), build(c)]),
        T::While(c, b) => Loop::new(cond(c), vec![build(b)]),
        T::If(c, b) => Branch::new(cond(c), vec![build(b)]),
        T::IfElse(c, a, b) => Branch::new_with_else(cond(c), vec![build(a)], vec![build(b)]),
        T::Scope(b) => Scope::new(vec![build(b)]),
    }
}

/// Expected effects besides the trace.
struct Fx {
    counter: u32,         // caller-visible Counter
    iters: u32,           // Iterations in the caller's scope
    iters_present: bool,  // a loop was initialised in the caller's scope
    mark1_root: bool,
    mark2_root: bool,
}

struct Interp {
    fx: Fx,
    level: u32,            // scope nesting while interpreting
    shadowed: bool,        // Counter shadowed in the current scope (leaf 6 ran in it)
}
impl Interp {
    fn phase(&mut self, t: &T, ph: u8) -> Result<(), ()> {
        match *t {
            T::Leaf(id) => {
                if want((ph, id)) {
                    return Err(());
                }
                if ph == REQ && id == 7 {
                    return Err(());
                }
                Ok(())
            }
            T::Seq2(a, b) => {
                self.phase(a, ph)?;
                self.phase(b, ph)
            }
            T::Seq3(a, b, c) => {
                self.phase(a, ph)?;
                self.phase(b, ph)?;
                self.phase(c, ph)
            }
            T::While(c, b) => {
                if ph == INIT {
                    if self.level == 0 {
                        self.fx.iters = 0;
                        self.fx.iters_present = true;
                    }
                    unsafe { WPOS[(c - 10) as usize] = 0 };
                }
                if want((ph, c)) {
                    return Err(());
                }
                self.phase(b, ph)
            }
            T::If(c, b) => {
                if ph == INIT {
                    unsafe { WPOS[(c - 10) as usize] = 0 };
                }
                if want((ph, c)) {
                    return Err(());
                }
                self.phase(b, ph)
            }
            T::IfElse(c, a, b) => {
                if ph == INIT {
                    unsafe { WPOS[(c - 10) as usize] = 0 };
                }
                if want((ph, c)) {
                    return Err(());
                }
                self.phase(a, ph)?;
                self.phase(b, ph)
            }
            // Scope has no init/require of its own: its body is set up on entry
            T::Scope(_) => Ok(()),
        }
    }
    fn answer(&mut self, c: u8) -> Result<bool, ()> {
        if want((EVAL, c)) {
            return Err(());
        }
        unsafe {
            let i = (c - 10) as usize;
            let r = if WPOS[i] < 2 { SCRIPT[i][WPOS[i]] } else { false };
            WPOS[i] += 1;
            Ok(r)
        }
    }
    fn exec(&mut self, t: &T) -> Result<(), ()> {
        match *t {
            T::Leaf(id) => {
                if want((EXEC, id)) {
                    return Err(());
                }
                if id == 6 {
                    if self.level > 0 {
                        self.shadowed = true;
                    } else {
                        self.fx.counter = 1000;
                    }
                } else if !self.shadowed {
                    self.fx.counter += 1;
                }
                if self.level == 0 && id == 1 {
                    self.fx.mark1_root = true;
                }
                if self.level == 0 && id == 2 {
                    self.fx.mark2_root = true;
                }
                Ok(())
            }
            T::Seq2(a, b) => {
                self.exec(a)?;
                self.exec(b)
            }
            T::Seq3(a, b, c) => {
                self.exec(a)?;
                self.exec(b)?;
                self.exec(c)
            }
            T::While(c, b) => {
                // the loop re-initialises its condition on entry
                unsafe { WPOS[(c - 10) as usize] = 0 };
                if want((INIT, c)) {
                    return Err(());
                }
                while self.answer(c)? {
                    self.exec(b)?;
                    if self.level == 0 {
                        self.fx.iters += 1;
                    }
                }
                Ok(())
            }
            T::If(c, b) => {
                if self.answer(c)? {
                    self.exec(b)?;
                }
                Ok(())
            }
            T::IfElse(c, a, b) => {
                if self.answer(c)? {
                    self.exec(a)
                } else {
                    self.exec(b)
                }
            }
            T::Scope(b) => {
                let was_shadowed = self.shadowed;
                self.level += 1;
                let r = self.phase(b, INIT).and_then(|_| self.phase(b, REQ)).and_then(|_| self.exec(b));
                self.level -= 1;
                // state created inside is gone, shadowed outer state is restored
                self.shadowed = was_shadowed;
                r
            }
        }
    }
}

/// Drive one tree through the real `Configuration::run` and compare with the interpreter.
fn run_tree(t: &'static T, faults: &[(u8, u8)], via_builder: bool) {
    unsafe {
        SCRIPT = [[sym::bool(), sym::bool()], [sym::bool(), sym::bool()]];
        let k = sym::u8() as usize;
        FAULT = if k < faults.len() { faults[k] } else { NONE };
        TLEN = 0;
        WLEN = 0;
    }
    let config: Configuration<TagP> = if via_builder {
        Configuration::builder().do_(build(t)).build()
    } else {
        Configuration::new(build(t))
    };
    let mut state: State<TagP> = State::new();
    state.insert(Counter(0));
    let r = config.run(&TagP, &mut state);

    let mut it = Interp { fx: Fx { counter: 0, iters: 0, iters_present: false, mark1_root: false, mark2_root: false }, level: 0, shadowed: false };
    let want_r = it.phase(t, INIT).and_then(|_| it.phase(t, REQ)).and_then(|_| it.exec(t));

    assert!(r.is_err() == want_r.is_err(), "the run fails exactly when the structured program fails (first error is returned)");
    unsafe {
        assert!(TLEN == WLEN && TLEN <= CAP, "exactly the expected number of lifecycle events");
        let mut i = 0;
        while i < TLEN {
            assert!(TRACE[i] == WANT[i], "components run in the order of the corresponding structured program");
            i += 1;
        }
    }
    // the caller's state: same depth, nothing removed, scope-local state gone
    assert!(state.parent().is_none(), "every scope that was opened is closed again");
    assert!(state.try_get_value::<Counter>().ok() == Some(it.fx.counter), "caller's state is intact: writes to non-shadowed outer state persist, shadowed state is restored");
    assert!(state.contains::<Mark1>() == it.fx.mark1_root, "state created inside a scope is gone afterwards; state created outside persists (Mark1)");
    assert!(state.contains::<Mark2>() == it.fx.mark2_root, "state created inside a scope is gone afterwards; state created outside persists (Mark2)");
    if it.fx.iters_present {
        assert!(state.try_get_value::<Iterations>().ok() == Some(it.fx.iters), "the loop counts completed passes");
    }
    vcover!(r.is_err(), "a failing run");
    vcover!(r.is_ok(), "a successful run");
    std::mem::forget(state);
    std::mem::forget(config);
}

static L1: T = T::Leaf(1);
static L2: T = T::Leaf(2);
static L3: T = T::Leaf(3);
static L6: T = T::Leaf(6);
static L7: T = T::Leaf(7);

static T_SEQ: T = T::Seq2(&L1, &L2);
/// @h tier=quick bound="tree: L1; L2 — fault in {none, init L2, require L1, execute L1, execute L2}" unwind=5 cost=4 mem=10
#[cfg_attr(kani, kani::proof)]
#[cfg_attr(kani, kani::unwind(5))]
pub fn h_c03_seq() {
    run_tree(&T_SEQ, &[(INIT, 2), (REQ, 1), (EXEC, 1), (EXEC, 2)], true);
}

static T_REQ: T = T::Seq2(&L1, &L7);
/// @h tier=quick bound="tree: L1; L7 (requires a missing state) — nothing executes" unwind=5 cost=4 mem=10 dead="a successful run"
#[cfg_attr(kani, kani::proof)]
#[cfg_attr(kani, kani::unwind(5))]
pub fn h_c03_missing_requirement() {
    run_tree(&T_REQ, &[], true);
    unsafe {
        let mut i = 0;
        while i < TLEN && i < CAP {
            assert!(TRACE[i].0 != EXEC, "a failed requirement means nothing executes");
            i += 1;
        }
    }
}

static T_WHILE: T = T::While(10, &L1);
/// @h tier=quick bound="tree: while(c10){L1} — <= 2 passes (symbolic), fault in {none, execute L1, evaluate c10}" unwind=5 cost=6 mem=12 timeout=900
#[cfg_attr(kani, kani::proof)]
#[cfg_attr(kani, kani::unwind(5))]
pub fn h_c03_while() {
    run_tree(&T_WHILE, &[(EXEC, 1), (EVAL, 10)], false);
}

static T_IFELSE: T = T::IfElse(10, &L1, &L2);
/// @h tier=quick bound="tree: if(c10){L1}else{L2} — symbolic outcome, fault in {none, execute L2}" unwind=5 cost=5 mem=12 timeout=900
#[cfg_attr(kani, kani::proof)]
#[cfg_attr(kani, kani::unwind(5))]
pub fn h_c03_ifelse() {
    run_tree(&T_IFELSE, &[(EXEC, 2)], false);
}

static T_IF: T = T::Seq2(&T::If(10, &L1), &L2);
/// @h tier=quick bound="tree: if(c10){L1}; L2 — symbolic outcome" unwind=5 cost=5 mem=12 timeout=900
#[cfg_attr(kani, kani::proof)]
#[cfg_attr(kani, kani::unwind(5))]
pub fn h_c03_if() {
    run_tree(&T_IF, &[], true);
}

static T_SCOPE: T = T::Seq3(&L3, &T::Scope(&L1), &L2);
/// @h tier=quick bound="tree: L3; scope{L1}; L2 — fault in {none, execute L1 (inside the scope), init L1, execute L2}" unwind=5 cost=7 mem=14 timeout=900
#[cfg_attr(kani, kani::proof)]
#[cfg_attr(kani, kani::unwind(5))]
pub fn h_c03_scope() {
    run_tree(&T_SCOPE, &[(EXEC, 1), (INIT, 1), (EXEC, 2)], true);
}

static T_SHADOW: T = T::Seq2(&T::Scope(&T::Seq2(&L6, &L1)), &L2);
/// @h tier=quick bound="tree: scope{L6 (shadows Counter); L1}; L2 — shadowed outer state is restored" unwind=5 cost=7 mem=14 timeout=900 dead="a failing run"
#[cfg_attr(kani, kani::proof)]
#[cfg_attr(kani, kani::unwind(5))]
pub fn h_c03_scope_shadow() {
    run_tree(&T_SHADOW, &[], false);
}

static T_WHILE_SCOPE: T = T::While(10, &T::Scope(&L1));
/// @h tier=thorough bound="tree: while(c10){scope{L1}} — scope body initialised on every entry; fault in {none, execute L1}" unwind=5 cost=9 mem=24 timeout=1800
#[cfg_attr(kani, kani::proof)]
#[cfg_attr(kani, kani::unwind(5))]
pub fn h_c03_while_scope() {
    run_tree(&T_WHILE_SCOPE, &[(EXEC, 1)], false);
}

static T_NESTED: T = T::While(10, &T::While(11, &L1));
/// @h tier=thorough bound="tree: while(c10){while(c11){L1}} — both scripts symbolic (<= 2x2 passes), shared pass counter" unwind=5 cost=9 mem=24 timeout=1800 dead="a failing run"
#[cfg_attr(kani, kani::proof)]
#[cfg_attr(kani, kani::unwind(5))]
pub fn h_c03_nested_while() {
    run_tree(&T_NESTED, &[], false);
}

static T_SCOPE_WHILE: T = T::Seq2(&T::Scope(&T::While(10, &L1)), &L2);
/// @h tier=thorough bound="tree: scope{while(c10){L1}}; L2 — fault in {none, execute L1}" unwind=5 cost=9 mem=24 timeout=1800
#[cfg_attr(kani, kani::proof)]
#[cfg_attr(kani, kani::unwind(5))]
pub fn h_c03_scope_while() {
    run_tree(&T_SCOPE_WHILE, &[(EXEC, 1)], true);
}
