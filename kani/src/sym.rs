//! Source of nondeterministic values.
//!
//! Under Kani each call is a fresh `kani::any()`. Natively (replay) each call consumes the next
//! byte vector of a counterexample printed by `--concrete-playback=print`, in the same order.
//! Only primitives are drawn so that the order and widths are identical in both worlds.

#[cfg(kani)]
mod imp {
    pub fn u8() -> u8 { kani::any() }
    pub fn u16() -> u16 { kani::any() }
    pub fn u32() -> u32 { kani::any() }
    pub fn u64() -> u64 { kani::any() }
    pub fn usize() -> usize { kani::any() }
    pub fn bool() -> bool { kani::any() }
    pub fn f64() -> f64 { kani::any() }
    pub fn assume(c: bool) { kani::assume(c) }
}

#[cfg(not(kani))]
mod imp {
    use std::cell::RefCell;
    thread_local! {
        static BYTES: RefCell<(Vec<Vec<u8>>, usize)> = RefCell::new((Vec::new(), 0));
        static ASSUME_VIOLATED: RefCell<bool> = RefCell::new(false);
    }
    pub fn load(v: Vec<Vec<u8>>) {
        BYTES.with(|b| *b.borrow_mut() = (v, 0));
        ASSUME_VIOLATED.with(|a| *a.borrow_mut() = false);
    }
    pub fn consumed() -> (usize, usize) {
        BYTES.with(|b| { let b = b.borrow(); (b.1, b.0.len()) })
    }
    pub fn assume_violated() -> bool { ASSUME_VIOLATED.with(|a| *a.borrow()) }
    fn next<const N: usize>() -> [u8; N] {
        BYTES.with(|b| {
            let mut b = b.borrow_mut();
            let i = b.1;
            b.1 += 1;
            let mut out = [0u8; N];
            if let Some(v) = b.0.get(i) {
                if v.len() != N {
                    panic!("REPLAY-DESYNC: draw {} wants {} bytes, counterexample has {}", i, N, v.len());
                }
                out.copy_from_slice(v);
            }
            // past the end: zeros (values the solver left unconstrained are not printed)
            out
        })
    }
    pub fn u8() -> u8 { next::<1>()[0] }
    pub fn u16() -> u16 { u16::from_le_bytes(next::<2>()) }
    pub fn u32() -> u32 { u32::from_le_bytes(next::<4>()) }
    pub fn u64() -> u64 { u64::from_le_bytes(next::<8>()) }
    pub fn usize() -> usize { u64::from_le_bytes(next::<8>()) as usize }
    pub fn bool() -> bool { next::<1>()[0] & 1 == 1 }
    pub fn f64() -> f64 { f64::from_bits(u64::from_le_bytes(next::<8>())) }
    /// A violated assumption means the replay left the region the solver explored: the run is
    /// abandoned and reported as not reproducing.
    pub fn assume(c: bool) {
        if !c {
            ASSUME_VIOLATED.with(|a| *a.borrow_mut() = true);
            panic!("REPLAY-ASSUME-VIOLATED");
        }
    }
}

pub use imp::*;

/// Reachability witness (vacuity guard). Under Kani a `cover!`; natively a no-op.
#[macro_export]
macro_rules! vcover {
    ($c:expr, $l:literal) => {{
        #[cfg(all(kani, not(feature = "nocover")))]
        kani::cover!($c, $l);
        #[cfg(not(all(kani, not(feature = "nocover"))))]
        { let _ = $c; }
    }};
}

/// Any legal objective value as f64: not NaN, not -inf.
pub fn legal_f64() -> f64 {
    let x = f64();
    assume(!x.is_nan() && x != f64::NEG_INFINITY);
    x
}
pub fn finite_f64() -> f64 {
    let x = f64();
    assume(x.is_finite());
    x
}
/// Small symbolic integer in 0..=max (does not size any allocation by itself).
pub fn upto(max: u8) -> u8 {
    let x = u8();
    assume(x <= max);
    x
}
