//! c12 — harnesses not written yet.
