//! C12 — replacement merges the two top populations as its name says.
//! Code: mahf::components::replacement::common::{DiscardOffspring,Generational,Merge,MuPlusLambda,RandomReplacement,KeepBetterAtIndex}::replace (called directly)
//! Code: mahf::components::replacement::replacement (driver, through a prepared State)
//! Out: parents/offspring with more than 3 individuals each; unevaluated individuals for the fitness-based operators (their documented precondition)
//! Reclimit: mahf::state::(registry::)?StateRegistry::<.*>::find(_mut)?::<.*>=2
//! Assume: individuals carry unique tags (parents 0.., offspring 10..) so multiset containment is checkable by tag; objectives are arbitrary legal f64
use mahf::components::replacement::{
    DiscardOffspring, Generational, KeepBetterAtIndex, Merge, MuPlusLambda, RandomReplacement, Replacement,
};
use mahf::components::Component;
use mahf::state::common::Populations;
use mahf::{Individual, Random, State};

use crate::problems::{obj, TagP};
use crate::rng::sym_random;
use crate::sym;

type Pop = Vec<Individual<TagP>>;

fn mk(n: usize, base: u8, o: &mut [f64; 4]) -> Pop {
    let mut v = Vec::with_capacity(4);
    let mut i = 0;
    while i < n {
        o[i] = sym::legal_f64();
        v.push(Individual::new(base + i as u8, obj(o[i])));
        i += 1;
    }
    v
}

fn same(ind: &Individual<TagP>, tag: u8, o: f64) -> bool {
    *ind.solution() == tag && ind.is_evaluated() && ind.objective().value().to_bits() == o.to_bits()
}

/// Every member of `r` is one of the inputs (tag and objective), and no tag occurs twice.
fn submultiset(r: &[Individual<TagP>], np: usize, nq: usize, po: &[f64; 4], qo: &[f64; 4]) -> bool {
    let mut i = 0;
    while i < r.len() {
        let t = *r[i].solution();
        let ok = if t < 10 {
            (t as usize) < np && same(&r[i], t, po[t as usize])
        } else {
            ((t - 10) as usize) < nq && same(&r[i], t, qo[(t - 10) as usize])
        };
        if !ok {
            return false;
        }
        let mut j = 0;
        while j < i {
            if *r[j].solution() == t {
                return false;
            }
            j += 1;
        }
        i += 1;
    }
    true
}

fn contains_tag(r: &[Individual<TagP>], t: u8) -> bool {
    let mut i = 0;
    while i < r.len() {
        if *r[i].solution() == t {
            return true;
        }
        i += 1;
    }
    false
}

fn exact_ops(np: usize, nq: usize) {
    let (mut po, mut qo) = ([0.0; 4], [0.0; 4]);
    let mut rng = sym_random(0);
    // DiscardOffspring
    let r = Replacement::<TagP>::replace(&DiscardOffspring::from_params(), mk(np, 0, &mut po), mk(nq, 10, &mut qo), &mut rng);
    match r {
        Ok(r) => {
            assert!(r.len() == np, "DiscardOffspring keeps exactly the parents");
            let mut i = 0;
            while i < np {
                assert!(same(&r[i], i as u8, po[i]), "DiscardOffspring keeps parents in order, unchanged");
                i += 1;
            }
            std::mem::forget(r);
        }
        Err(_) => assert!(false, "DiscardOffspring never errs"),
    }
    // Generational (mu is arbitrary and must not matter)
    let mu = sym::u32();
    let r = Replacement::<TagP>::replace(&Generational::from_params(mu), mk(np, 0, &mut po), mk(nq, 10, &mut qo), &mut rng);
    match r {
        Ok(r) => {
            assert!(r.len() == nq, "Generational keeps exactly the offspring");
            let mut i = 0;
            while i < nq {
                assert!(same(&r[i], 10 + i as u8, qo[i]), "Generational keeps offspring in order, unchanged");
                i += 1;
            }
            std::mem::forget(r);
        }
        Err(_) => assert!(false, "Generational never errs"),
    }
    // Merge
    let r = Replacement::<TagP>::replace(&Merge::from_params(), mk(np, 0, &mut po), mk(nq, 10, &mut qo), &mut rng);
    match r {
        Ok(r) => {
            assert!(r.len() == np + nq, "Merge keeps everyone");
            let mut i = 0;
            while i < np {
                assert!(same(&r[i], i as u8, po[i]), "Merge: parents first, in order");
                i += 1;
            }
            let mut i = 0;
            while i < nq {
                assert!(same(&r[np + i], 10 + i as u8, qo[i]), "Merge: then offspring, in order");
                i += 1;
            }
            std::mem::forget(r);
        }
        Err(_) => assert!(false, "Merge never errs"),
    }
    std::mem::forget(rng);
}

macro_rules! h2 {
    ($name:ident, $f:ident, $a:expr, $b:expr, $uw:expr) => {
        #[cfg_attr(kani, kani::proof)]
        #[cfg_attr(kani, kani::unwind($uw))]
        pub fn $name() {
            $f($a, $b);
            vcover!(true, "reached");
        }
    };
}

// @h tier=quick bound="parents 0, offspring 0" unwind=4
h2!(h_c12_exact_0_0, exact_ops, 0, 0, 4);
// @h tier=quick bound="parents 2, offspring 1; all legal objectives" unwind=5
h2!(h_c12_exact_2_1, exact_ops, 2, 1, 5);
// @h tier=quick bound="parents 1, offspring 2; all legal objectives" unwind=5
h2!(h_c12_exact_1_2, exact_ops, 1, 2, 5);
// @h tier=quick bound="parents 2, offspring 0" unwind=5
h2!(h_c12_exact_2_0, exact_ops, 2, 0, 5);
// @h tier=thorough bound="parents 3, offspring 3; all legal objectives" unwind=6
h2!(h_c12_exact_3_3, exact_ops, 3, 3, 6);

fn mu_plus_lambda(np: usize, nq: usize) {
    let (mut po, mut qo) = ([0.0; 4], [0.0; 4]);
    let mut rng = sym_random(0);
    let mu = sym::u32();
    let total = np + nq;
    let r = Replacement::<TagP>::replace(&MuPlusLambda::from_params(mu), mk(np, 0, &mut po), mk(nq, 10, &mut qo), &mut rng);
    match r {
        Ok(r) => {
            let want = if (mu as usize) < total { mu as usize } else { total };
            assert!(r.len() == want, "MuPlusLambda keeps min(mu, total) individuals");
            assert!(submultiset(&r, np, nq, &po, &qo), "MuPlusLambda: result is a sub-multiset of parents and offspring");
            // no discarded individual is strictly better than a kept one
            let mut worst_kept = f64::NEG_INFINITY;
            let mut i = 0;
            while i < r.len() {
                let v = r[i].objective().value();
                if v > worst_kept {
                    worst_kept = v;
                }
                i += 1;
            }
            let mut i = 0;
            while i < np {
                if !contains_tag(&r, i as u8) {
                    assert!(r.is_empty() || po[i] >= worst_kept, "MuPlusLambda: discarded parent is not better than a kept individual");
                }
                i += 1;
            }
            let mut i = 0;
            while i < nq {
                if !contains_tag(&r, 10 + i as u8) {
                    assert!(r.is_empty() || qo[i] >= worst_kept, "MuPlusLambda: discarded offspring is not better than a kept individual");
                }
                i += 1;
            }
            if total >= 2 {
                vcover!(mu as usize == total - 1, "truncates by one");
            }
            std::mem::forget(r);
        }
        Err(_) => assert!(false, "MuPlusLambda never errs on evaluated individuals"),
    }
    std::mem::forget(rng);
}
// @h tier=quick bound="parents 0, offspring 0; any mu" unwind=4 dead="truncates by one"
h2!(h_c12_mupluslambda_0_0, mu_plus_lambda, 0, 0, 4);
// @h tier=quick bound="parents 1, offspring 1; any mu; all legal objectives" unwind=5
h2!(h_c12_mupluslambda_1_1, mu_plus_lambda, 1, 1, 5);
// @h tier=quick bound="parents 2, offspring 1; any mu; all legal objectives" unwind=6
h2!(h_c12_mupluslambda_2_1, mu_plus_lambda, 2, 1, 6);
// @h tier=quick bound="parents 0, offspring 2; any mu" unwind=5
h2!(h_c12_mupluslambda_0_2, mu_plus_lambda, 0, 2, 5);
// @h tier=quick bound="parents 2, offspring 2; any mu; all legal objectives" unwind=7 cost=2
h2!(h_c12_mupluslambda_2_2, mu_plus_lambda, 2, 2, 7);
// @h tier=thorough bound="parents 3, offspring 2; any mu" unwind=8 cost=4 timeout=1200
h2!(h_c12_mupluslambda_3_2, mu_plus_lambda, 3, 2, 8);

fn random_replacement(np: usize, nq: usize) {
    let (mut po, mut qo) = ([0.0; 4], [0.0; 4]);
    let total = np + nq;
    // shuffle of n draws n-1 range samples; +2 rejection slack
    let mut rng = sym_random(if total > 0 { total as u32 + 1 } else { 2 });
    let mu = sym::u32();
    let r = Replacement::<TagP>::replace(&RandomReplacement::from_params(mu), mk(np, 0, &mut po), mk(nq, 10, &mut qo), &mut rng);
    match r {
        Ok(r) => {
            let want = if (mu as usize) < total { mu as usize } else { total };
            assert!(r.len() == want, "RandomReplacement keeps min(mu, total) individuals");
            assert!(submultiset(&r, np, nq, &po, &qo), "RandomReplacement: result is a sub-multiset of parents and offspring");
            if total >= 2 {
                vcover!(r.len() == 1 && *r[0].solution() >= 10, "an offspring can survive alone");
                vcover!(r.len() == 1 && *r[0].solution() < 10, "a parent can survive alone");
            }
            std::mem::forget(r);
        }
        Err(_) => assert!(false, "RandomReplacement never errs"),
    }
    std::mem::forget(rng);
}
// @h tier=quick bound="parents 0, offspring 0; any mu" unwind=4 dead="an offspring can survive alone;a parent can survive alone"
h2!(h_c12_random_0_0, random_replacement, 0, 0, 4);
// @h tier=quick bound="parents 1, offspring 1; any mu; all draw sequences within 3 draws" unwind=5
h2!(h_c12_random_1_1, random_replacement, 1, 1, 5);
// @h tier=quick bound="parents 2, offspring 1; any mu; all draw sequences within 4 draws" unwind=6 cost=2
h2!(h_c12_random_2_1, random_replacement, 2, 1, 6);
// @h tier=thorough bound="parents 2, offspring 2; any mu; all draw sequences within 5 draws" unwind=7 cost=4 timeout=1200
h2!(h_c12_random_2_2, random_replacement, 2, 2, 7);

fn keep_better(np: usize, nq: usize) {
    let (mut po, mut qo) = ([0.0; 4], [0.0; 4]);
    let mut rng = sym_random(0);
    let r = Replacement::<TagP>::replace(&KeepBetterAtIndex::from_params(), mk(np, 0, &mut po), mk(nq, 10, &mut qo), &mut rng);
    if np != nq {
        assert!(r.is_err(), "KeepBetterAtIndex: unequal sizes are an error");
    } else {
        match r {
            Ok(r) => {
                assert!(r.len() == np, "KeepBetterAtIndex keeps the size");
                let mut i = 0;
                while i < np {
                    if qo[i] < po[i] {
                        assert!(same(&r[i], 10 + i as u8, qo[i]), "KeepBetterAtIndex: strictly better offspring replaces the parent at its index");
                    } else {
                        assert!(same(&r[i], i as u8, po[i]), "KeepBetterAtIndex: parent kept when not worse (ties kept by the parent)");
                    }
                    i += 1;
                }
                if np > 0 {
                    vcover!(qo[0] == po[0], "tie");
                    vcover!(qo[0] < po[0], "offspring better");
                }
                std::mem::forget(r);
            }
            Err(_) => assert!(false, "KeepBetterAtIndex succeeds on equal sizes"),
        }
    }
    std::mem::forget(rng);
}
// @h tier=quick bound="parents 0, offspring 0" unwind=4 dead="tie;offspring better"
h2!(h_c12_keepbetter_0_0, keep_better, 0, 0, 4);
// @h tier=quick bound="parents 1, offspring 1; all legal objectives" unwind=5
h2!(h_c12_keepbetter_1_1, keep_better, 1, 1, 5);
// @h tier=quick bound="parents 2, offspring 2; all legal objectives" unwind=6
h2!(h_c12_keepbetter_2_2, keep_better, 2, 2, 6);
// @h tier=quick bound="parents 2, offspring 1 (unequal)" unwind=6 dead="tie;offspring better"
h2!(h_c12_keepbetter_2_1, keep_better, 2, 1, 6);
// @h tier=quick bound="parents 0, offspring 1 (unequal)" unwind=5 dead="tie;offspring better"
h2!(h_c12_keepbetter_0_1, keep_better, 0, 1, 5);
// @h tier=thorough bound="parents 3, offspring 3; all legal objectives" unwind=7
h2!(h_c12_keepbetter_3_3, keep_better, 3, 3, 7);

// ---- the driver: consumes exactly the two top populations, leaves one, nothing below is touched

fn driver_state(np: usize, nq: usize, po: &mut [f64; 4], qo: &mut [f64; 4], base_o: f64) -> State<'static, TagP> {
    let mut pops = Populations::<TagP>::new();
    pops.push(vec![Individual::new(99u8, obj(base_o))]);
    pops.push(mk(np, 0, po));
    pops.push(mk(nq, 10, qo));
    let mut s: State<TagP> = State::new();
    s.insert(sym_random(0));
    s.insert(pops);
    s
}

fn driver_generational(np: usize, nq: usize) {
    let (mut po, mut qo) = ([0.0; 4], [0.0; 4]);
    let b = sym::legal_f64();
    let mut s = driver_state(np, nq, &mut po, &mut qo, b);
    let r = Component::<TagP>::execute(&Generational::from_params(sym::u32()), &TagP, &mut s);
    assert!(r.is_ok(), "driver: Generational succeeds");
    {
        let p = s.populations();
        assert!(p.len() == 2, "driver: two populations consumed, one pushed");
        let top = p.current();
        assert!(top.len() == nq, "driver+Generational: the new top is the offspring population");
        let mut i = 0;
        while i < nq {
            assert!(same(&top[i], 10 + i as u8, qo[i]), "driver+Generational: offspring unchanged");
            i += 1;
        }
        let below = p.peek(1);
        assert!(below.len() == 1 && same(&below[0], 99, b), "driver: the population underneath is untouched");
    }
    std::mem::forget(s);
}
// @h tier=quick bound="stack [base, parents 1, offspring 0]: Generational through the driver" unwind=5 cost=3
h2!(h_c12_driver_generational_1_0, driver_generational, 1, 0, 5);
// @h tier=quick bound="stack [base, parents 1, offspring 2]: Generational through the driver" unwind=5 cost=3
h2!(h_c12_driver_generational_1_2, driver_generational, 1, 2, 5);

fn driver_keepbetter(np: usize, nq: usize) {
    let (mut po, mut qo) = ([0.0; 4], [0.0; 4]);
    let b = sym::legal_f64();
    let mut s = driver_state(np, nq, &mut po, &mut qo, b);
    let r = Component::<TagP>::execute(&KeepBetterAtIndex::from_params(), &TagP, &mut s);
    if np != nq {
        assert!(r.is_err(), "driver: KeepBetterAtIndex error is propagated");
    } else {
        assert!(r.is_ok(), "driver: KeepBetterAtIndex succeeds");
        let p = s.populations();
        assert!(p.len() == 2, "driver: two populations consumed, one pushed");
        let top = p.current();
        assert!(top.len() == np, "driver+KeepBetterAtIndex: size kept");
        if np == 1 {
            if qo[0] < po[0] {
                assert!(same(&top[0], 10, qo[0]), "driver+KeepBetterAtIndex: better offspring kept");
            } else {
                assert!(same(&top[0], 0, po[0]), "driver+KeepBetterAtIndex: parent kept on tie or better");
            }
        }
        let below = p.peek(1);
        assert!(below.len() == 1 && same(&below[0], 99, b), "driver: the population underneath is untouched");
    }
    std::mem::forget(s);
}
// @h tier=quick bound="stack [base, parents 1, offspring 1]: KeepBetterAtIndex through the driver" unwind=5 cost=3
h2!(h_c12_driver_keepbetter_1_1, driver_keepbetter, 1, 1, 5);
// @h tier=quick bound="stack [base, parents 1, offspring 0]: KeepBetterAtIndex error through the driver" unwind=5 cost=3
h2!(h_c12_driver_keepbetter_1_0, driver_keepbetter, 1, 0, 5);
