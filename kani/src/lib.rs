//! Harnesses for solver-based checking of mahf (see /verif/DESIGN.md).
//!
//! The same sources are compiled twice:
//!  * by `cargo kani` in /verif/kani (cfg(kani)): every `h_*` function is a `#[kani::proof]`,
//!    `sym::*` return `kani::any()` values, eyre/better_any are the verification shims and the
//!    registry uses the hook map;
//!  * natively by /verif/replay: `sym::*` read the counterexample bytes Kani printed, and the
//!    crate under test is the unmodified /repo build (real eyre, real HashMap, real libm).
#![allow(dead_code, unused_imports, unused_variables, unused_mut, clippy::all)]

#[macro_use]
pub mod sym;
pub mod rng;
pub mod problems;

#[cfg(feature = "c01")]
pub mod c01;
#[cfg(feature = "c02")]
pub mod c02;
#[cfg(feature = "c03")]
pub mod c03;
#[cfg(feature = "c04")]
pub mod c04;
#[cfg(feature = "c05")]
pub mod c05;
#[cfg(feature = "c06")]
pub mod c06;
#[cfg(feature = "c07")]
pub mod c07;
#[cfg(feature = "c08")]
pub mod c08;
#[cfg(feature = "c09")]
pub mod c09;
#[cfg(feature = "c10")]
pub mod c10;
#[cfg(feature = "c11")]
pub mod c11;
#[cfg(feature = "c12")]
pub mod c12;
#[cfg(feature = "c13")]
pub mod c13;
#[cfg(feature = "c14")]
pub mod c14;
#[cfg(feature = "c17")]
pub mod c17;
#[cfg(feature = "c18")]
pub mod c18;
#[cfg(feature = "c19")]
pub mod c19;
#[cfg(feature = "c20")]
pub mod c20;
#[cfg(feature = "shim")]
pub mod shimcheck;

#[cfg(not(kani))]
pub mod registry;
