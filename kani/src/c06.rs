//! C06 — evaluation steps evaluate everyone once and the evaluation count is exact.
//! Code: mahf::components::evaluation::PopulationEvaluator::{init,require,execute}, mahf::problems::evaluate::{Sequential::evaluate,ObjectiveFunction}, mahf::state::common::{Evaluator,Evaluations}, mahf::State::holding
//! Out: the Parallel evaluator (rayon threads: no concurrency model in the engine); populations larger than 3; whole-run exactness is an induction (every other shipped component makes no objective call: not decided here); Evaluations within 3 of u32::MAX (overflow panic)
//! Reclimit: mahf::state::(registry::)?StateRegistry::<.*>::find(_mut)?::<.*>=2
//! Assume: objective function = symbolic table over (solution & 3) with a call counter per population slot (solutions are tagged 0..n); one evaluation step from an arbitrary population (evaluated or not) and an arbitrary previous counter
use mahf::components::evaluation::PopulationEvaluator;
use mahf::components::Component;
use mahf::identifier::Global;
use mahf::problems::{Evaluate, ObjectiveFunction, Problem, Sequential};
use mahf::state::common::{Evaluations, Evaluator, Populations};
use mahf::{Individual, SingleObjective, State};

use crate::problems::obj;
use crate::sym;

static mut TABLE: [f64; 4] = [0.0; 4];
static mut CALLS: [u8; 4] = [0; 4];
static mut TOTAL: u32 = 0;

pub struct CountP;
impl Problem for CountP {
    type Encoding = u8;
    type Objective = SingleObjective;
    fn name(&self) -> &str {
        "CountP"
    }
}
impl ObjectiveFunction for CountP {
    fn objective(&self, solution: &u8) -> SingleObjective {
        unsafe {
            CALLS[(*solution & 3) as usize] += 1;
            TOTAL += 1;
            obj(TABLE[(*solution & 3) as usize])
        }
    }
}
type Ind = Individual<CountP>;

fn setup() {
    unsafe {
        TABLE = [sym::legal_f64(), sym::legal_f64(), sym::legal_f64(), sym::legal_f64()];
        CALLS = [0; 4];
        TOTAL = 0;
    }
}
/// Population of n individuals with solutions 0..n; each arbitrarily unevaluated, or evaluated
/// with an arbitrary (possibly stale) value.
fn pop(n: usize) -> Vec<Ind> {
    let mut v = Vec::with_capacity(4);
    let mut i = 0;
    while i < n {
        if sym::bool() {
            v.push(Individual::new(i as u8, obj(sym::legal_f64())));
        } else {
            v.push(Individual::new_unevaluated(i as u8));
        }
        i += 1;
    }
    v
}
fn all_fresh(p: &[Ind], n: usize) {
    assert!(p.len() == n, "the population keeps its size");
    let mut i = 0;
    while i < n {
        assert!(*p[i].solution() == i as u8, "order and solutions are kept");
        assert!(p[i].is_evaluated(), "everyone is evaluated afterwards");
        unsafe {
            assert!(p[i].objective().value().to_bits() == TABLE[i].to_bits(), "with the problem's objective value for ITS solution");
            assert!(CALLS[i] == 1, "each individual is evaluated exactly once");
        }
        i += 1;
    }
    unsafe { assert!(TOTAL == n as u32, "the objective function is invoked exactly once per individual") };
}

fn sequential(n: usize) {
    setup();
    let mut p = pop(n);
    let mut s: State<CountP> = State::new();
    let mut ev = Sequential::<CountP>::new();
    ev.evaluate(&CountP, &mut s, &mut p);
    all_fresh(&p, n);
    vcover!(true, "reached");
    std::mem::forget((p, s));
}
/// @h tier=quick bound="Sequential::evaluate on 0 individuals" unwind=3
#[cfg_attr(kani, kani::proof)]
#[cfg_attr(kani, kani::unwind(3))]
pub fn h_c06_sequential_0() {
    sequential(0)
}
/// @h tier=quick bound="Sequential::evaluate on 2 individuals, each arbitrarily (un)evaluated before" unwind=5 cost=2
#[cfg_attr(kani, kani::proof)]
#[cfg_attr(kani, kani::unwind(5))]
pub fn h_c06_sequential_2() {
    sequential(2)
}
/// @h tier=quick bound="Sequential::evaluate on 3 individuals" unwind=6 cost=3
#[cfg_attr(kani, kani::proof)]
#[cfg_attr(kani, kani::unwind(6))]
pub fn h_c06_sequential_3() {
    sequential(3)
}

fn step(n: usize, height2: bool) {
    setup();
    let prev = sym::u32();
    sym::assume(prev <= u32::MAX - 3);
    let mut pops = Populations::<CountP>::new();
    if height2 {
        pops.push(vec![Individual::new_unevaluated(3u8)]);
    }
    pops.push(pop(n));
    let mut s: State<CountP> = State::new();
    s.insert(Evaluations(prev));
    s.insert_evaluator(Sequential::<CountP>::new());
    s.insert(pops);
    let c = PopulationEvaluator::<Global>::from_params();
    assert!(Component::<CountP>::require(&c, &CountP, &s.requirements()).is_ok(), "requirements are met");
    let r = Component::<CountP>::execute(&c, &CountP, &mut s);
    assert!(r.is_ok(), "the evaluation step succeeds");
    {
        let p = s.populations();
        assert!(p.len() == if height2 { 2 } else { 1 }, "the stack keeps its height (an empty population stays where it is)");
        all_fresh(p.current(), n);
        if height2 {
            assert!(p.peek(1).len() == 1 && !p.peek(1)[0].is_evaluated(), "populations underneath are not evaluated");
        }
    }
    assert!(s.try_get_value::<Evaluations>().ok() == Some(prev + n as u32), "the counter advances by exactly the population size");
    assert!(s.contains::<Evaluator<CountP, Global>>(), "the evaluator is back in the state");
    vcover!(true, "reached");
    std::mem::forget(s);
}
/// @h tier=quick bound="evaluation step: empty current population on a stack of height 2; any previous count" unwind=4 cost=4 mem=10
#[cfg_attr(kani, kani::proof)]
#[cfg_attr(kani, kani::unwind(4))]
pub fn h_c06_step_0() {
    step(0, true)
}
/// @h tier=quick bound="evaluation step: 1 individual; any previous count" unwind=4 cost=4 mem=10
#[cfg_attr(kani, kani::proof)]
#[cfg_attr(kani, kani::unwind(4))]
pub fn h_c06_step_1() {
    step(1, false)
}
/// @h tier=quick bound="evaluation step: 2 individuals (each arbitrarily (un)evaluated before) on a stack of height 2; any previous count" unwind=5 cost=5 mem=12 timeout=600
#[cfg_attr(kani, kani::proof)]
#[cfg_attr(kani, kani::unwind(5))]
pub fn h_c06_step_2() {
    step(2, true)
}
/// @h tier=thorough bound="evaluation step: 3 individuals; any previous count" unwind=6 cost=8 mem=20 timeout=1800
#[cfg_attr(kani, kani::proof)]
#[cfg_attr(kani, kani::unwind(6))]
pub fn h_c06_step_3() {
    step(3, false)
}

/// @h tier=quick bound="empty stack: the step is a no-op" unwind=4 cost=3
#[cfg_attr(kani, kani::proof)]
#[cfg_attr(kani, kani::unwind(4))]
pub fn h_c06_step_empty_stack() {
    setup();
    let prev = sym::u32();
    let mut s: State<CountP> = State::new();
    s.insert(Evaluations(prev));
    s.insert_evaluator(Sequential::<CountP>::new());
    s.insert(Populations::<CountP>::new());
    let c = PopulationEvaluator::<Global>::from_params();
    assert!(Component::<CountP>::execute(&c, &CountP, &mut s).is_ok(), "no population: nothing to do");
    assert!(s.populations().is_empty() && s.try_get_value::<Evaluations>().ok() == Some(prev), "nothing changed");
    unsafe { assert!(TOTAL == 0, "no objective call") };
    vcover!(true, "reached");
    std::mem::forget(s);
}

#[derive(Default, Copy, Clone, serde::Serialize)]
pub struct OtherId;

/// @h tier=quick bound="requirements: no evaluator / evaluator under another identifier / no population stack => Err before anything executes" unwind=4 cost=3
#[cfg_attr(kani, kani::proof)]
#[cfg_attr(kani, kani::unwind(4))]
pub fn h_c06_missing_evaluator() {
    let c = PopulationEvaluator::<Global>::from_params();
    let mut s: State<CountP> = State::new();
    s.insert(Populations::<CountP>::new());
    assert!(Component::<CountP>::init(&c, &CountP, &mut s).is_ok(), "init succeeds");
    assert!(s.try_get_value::<Evaluations>().ok() == Some(0), "init starts the counter at zero");
    assert!(Component::<CountP>::require(&c, &CountP, &s.requirements()).is_err(), "no evaluator registered: the requirement check fails");
    s.insert_evaluator_as::<OtherId>(Sequential::<CountP>::new());
    assert!(Component::<CountP>::require(&c, &CountP, &s.requirements()).is_err(), "an evaluator under another identifier does not satisfy the requirement");
    assert!(Component::<CountP>::require(&PopulationEvaluator::<OtherId>::from_params(), &CountP, &s.requirements()).is_ok(), "the matching identifier does");
    s.insert_evaluator(Sequential::<CountP>::new());
    assert!(Component::<CountP>::require(&c, &CountP, &s.requirements()).is_ok(), "with the evaluator the requirement holds");
    vcover!(true, "reached");
    std::mem::forget(s);
}
