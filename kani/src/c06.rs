//! c06 — harnesses not written yet.
