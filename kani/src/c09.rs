//! C09 — objective values are never NaN / -inf and are soundly ordered.
//! Code under test: src/problems/objective/{single,multi}.rs (called directly; class L).
use std::cmp::Ordering;

use mahf::{MultiObjective, SingleObjective};

use crate::sym;

fn legal(x: f64) -> bool {
    !x.is_nan() && x != f64::NEG_INFINITY
}

/// @h tier=quick bound="all 2^64 f64 bit patterns"
#[cfg_attr(kani, kani::proof)]
pub fn h_c09_single_tryfrom() {
    let x = sym::f64();
    let r = SingleObjective::try_from(x);
    assert!(r.is_ok() == legal(x), "try_from accepts exactly the legal values");
    if let Ok(o) = r {
        assert!(o.value().to_bits() == x.to_bits(), "value() returns the constructed value");
        assert!(f64::from(o).to_bits() == x.to_bits(), "f64::from returns the constructed value");
        assert!(o.is_finite() == x.is_finite(), "is_finite agrees with f64");
        vcover!(x == f64::INFINITY, "inf accepted");
    }
    vcover!(r.is_err(), "rejected");
}

/// @h tier=quick bound="concrete constants"
#[cfg_attr(kani, kani::proof)]
pub fn h_c09_single_constants() {
    let d = SingleObjective::default();
    assert!(legal(d.value()) && d.value() == f64::INFINITY, "default is +inf");
    assert!(SingleObjective::INFINITY.value() == f64::INFINITY, "INFINITY is +inf");
    assert!(d == SingleObjective::INFINITY, "default == INFINITY");
    vcover!(true, "reached");
}

/// @h tier=quick bound="all pairs of legal f64"
#[cfg_attr(kani, kani::proof)]
pub fn h_c09_single_order_pair() {
    let (x, y) = (sym::legal_f64(), sym::legal_f64());
    let a = SingleObjective::try_from(x).unwrap();
    let b = SingleObjective::try_from(y).unwrap();
    let c = a.cmp(&b); // must not panic
    assert!((c == Ordering::Less) == (x < y), "Less iff numerically smaller");
    assert!((c == Ordering::Greater) == (x > y), "Greater iff numerically greater");
    assert!((c == Ordering::Equal) == (x == y), "Equal iff numerically equal");
    assert!((a == b) == (c == Ordering::Equal), "Eq consistent with Ord");
    assert!(a.partial_cmp(&b) == Some(c), "PartialOrd consistent with Ord");
    assert!(b.cmp(&a) == c.reverse(), "antisymmetric");
    assert!((a < b) == (x < y) && (a <= b) == (x <= y) && (a > b) == (x > y) && (a >= b) == (x >= y), "comparison operators agree");
    let mn = std::cmp::min(a, b);
    let mx = std::cmp::max(a, b);
    assert!(mn.value() <= x && mn.value() <= y && mx.value() >= x && mx.value() >= y, "min/max bound both");
    vcover!(c == Ordering::Less, "less");
    vcover!(c == Ordering::Equal && x == f64::INFINITY, "equal at inf");
}

/// @h tier=quick bound="all triples of legal f64" unwind=5
#[cfg_attr(kani, kani::proof)]
#[cfg_attr(kani, kani::unwind(5))]
pub fn h_c09_single_order_triple() {
    let (x, y, z) = (sym::legal_f64(), sym::legal_f64(), sym::legal_f64());
    let a = SingleObjective::try_from(x).unwrap();
    let b = SingleObjective::try_from(y).unwrap();
    let c = SingleObjective::try_from(z).unwrap();
    if a <= b && b <= c {
        assert!(a <= c, "transitive");
    }
    if a.cmp(&b) == Ordering::Less && b.cmp(&c) == Ordering::Less {
        assert!(a.cmp(&c) == Ordering::Less, "strictly transitive");
    }
    let arr = [a, b, c];
    let mn = *arr.iter().min().unwrap();
    let mx = *arr.iter().max().unwrap();
    assert!(mn.value() <= x && mn.value() <= y && mn.value() <= z, "min of three never fails and is minimal");
    assert!(mx.value() >= x && mx.value() >= y && mx.value() >= z, "max of three never fails and is maximal");
    vcover!(x < y && y < z, "ascending");
    vcover!(x > y && y > z, "descending");
}

/// @h tier=quick bound="all triples of legal f64, slice::sort" unwind=5
#[cfg_attr(kani, kani::proof)]
#[cfg_attr(kani, kani::unwind(5))]
pub fn h_c09_single_sort3() {
    let (x, y, z) = (sym::legal_f64(), sym::legal_f64(), sym::legal_f64());
    let mut arr = [
        SingleObjective::try_from(x).unwrap(),
        SingleObjective::try_from(y).unwrap(),
        SingleObjective::try_from(z).unwrap(),
    ];
    arr.sort();
    assert!(arr[0].value() <= arr[1].value() && arr[1].value() <= arr[2].value(), "sorted ascending");
    let s = |v: f64| (arr[0].value() == v) as u8 + (arr[1].value() == v) as u8 + (arr[2].value() == v) as u8;
    let n = |v: f64| (x == v) as u8 + (y == v) as u8 + (z == v) as u8;
    assert!(s(x) == n(x) && s(y) == n(y) && s(z) == n(z), "sort permutes");
    vcover!(x > y && y > z, "descending input");
}

// ---- operator semantics (hold) and closure (known finding F-C09a) ----------------------------

fn same(a: f64, b: f64) -> bool {
    a.to_bits() == b.to_bits() || (a.is_nan() && b.is_nan())
}

/// @h tier=quick bound="all pairs of legal f64; operators compute the f64 operation"
#[cfg_attr(kani, kani::proof)]
pub fn h_c09_single_ops_exact() {
    let (x, y) = (sym::legal_f64(), sym::legal_f64());
    let a = SingleObjective::try_from(x).unwrap();
    let b = SingleObjective::try_from(y).unwrap();
    assert!(same((a + b).value(), x + y), "Add is f64 addition");
    assert!(same((a - b).value(), x - y), "Sub is f64 subtraction");
    assert!(same((-a).value(), -x), "Neg is f64 negation");
    vcover!(true, "reached");
}

/// Closure on the region where IEEE arithmetic cannot leave the legal set: finite operands
/// whose exact result is in range.
/// @h tier=quick bound="finite |x|,|y| <= 2^1000"
#[cfg_attr(kani, kani::proof)]
pub fn h_c09_single_closure_safe_region() {
    let (x, y) = (sym::finite_f64(), sym::finite_f64());
    let big = f64::from_bits(0x7E70000000000000); // 2^1000
    sym::assume(x.abs() <= big && y.abs() <= big);
    let a = SingleObjective::try_from(x).unwrap();
    let b = SingleObjective::try_from(y).unwrap();
    assert!(legal((a + b).value()), "a+b legal for in-range operands");
    assert!(legal((a - b).value()), "a-b legal for in-range operands");
    assert!(legal((-a).value()), "-a legal for finite a");
    vcover!(true, "reached");
}

/// @h tier=quick bound="all legal a" known=F-C09a
#[cfg_attr(kani, kani::proof)]
pub fn h_c09_single_closure_neg() {
    let x = sym::legal_f64();
    let a = SingleObjective::try_from(x).unwrap();
    assert!(legal((-a).value()), "closure: -a is a legal objective");
}

/// @h tier=quick bound="all legal a,b" known=F-C09a
#[cfg_attr(kani, kani::proof)]
pub fn h_c09_single_closure_add() {
    let (x, y) = (sym::legal_f64(), sym::legal_f64());
    let a = SingleObjective::try_from(x).unwrap();
    let b = SingleObjective::try_from(y).unwrap();
    assert!(legal((a + b).value()), "closure: a+b is a legal objective");
}

/// @h tier=quick bound="all legal a,b" known=F-C09a
#[cfg_attr(kani, kani::proof)]
pub fn h_c09_single_closure_sub() {
    let (x, y) = (sym::legal_f64(), sym::legal_f64());
    let a = SingleObjective::try_from(x).unwrap();
    let b = SingleObjective::try_from(y).unwrap();
    assert!(legal((a - b).value()), "closure: a-b is a legal objective");
}

/// `Mul<f64>`/`Div<f64>` (derive_more newtype scaling). Case split instead of a 64-bit
/// multiplier/divider: k ranges over {0, 1, -1, +inf, 2, 0.5}.
/// @h tier=quick bound="all legal a; k in {0,1,-1,inf,2,0.5}" known=F-C09a
#[cfg_attr(kani, kani::proof)]
pub fn h_c09_single_closure_scale() {
    let x = sym::legal_f64();
    let a = SingleObjective::try_from(x).unwrap();
    let ks = [0.0, 1.0, -1.0, f64::INFINITY, 2.0, 0.5];
    let i = sym::upto(5) as usize;
    let k = ks[i];
    assert!(legal((a * k).value()), "closure: a*k is a legal objective");
    assert!(legal((a / k).value()), "closure: a/k is a legal objective");
}

/// @h tier=quick bound="all legal a; k in {1,2,0.5}: scaling by benign constants is exact and legal"
#[cfg_attr(kani, kani::proof)]
pub fn h_c09_single_scale_exact() {
    let x = sym::legal_f64();
    let a = SingleObjective::try_from(x).unwrap();
    assert!(same((a * 1.0).value(), x) && same((a / 1.0).value(), x), "scaling by 1 is identity");
    assert!(same((a * 2.0).value(), x * 2.0) && same((a / 2.0).value(), x / 2.0), "scaling by 2");
    vcover!(true, "reached");
}

// ---- multi-objective ---------------------------------------------------------------------------

fn symvec(n: usize) -> Vec<f64> {
    let mut v = Vec::with_capacity(n);
    let mut i = 0;
    while i < n {
        v.push(sym::f64());
        i += 1;
    }
    v
}
fn legalvec(n: usize) -> Vec<f64> {
    let mut v = Vec::with_capacity(n);
    let mut i = 0;
    while i < n {
        v.push(sym::legal_f64());
        i += 1;
    }
    v
}

fn multi_tryfrom(n: usize) -> bool {
    let v = symvec(n);
    let mut all_legal = true;
    let mut i = 0;
    while i < n {
        all_legal &= legal(v[i]);
        i += 1;
    }
    let r1 = MultiObjective::try_from(&v[..]);
    assert!(r1.is_ok() == all_legal, "try_from(&[f64]) accepts exactly all-legal vectors");
    let r2 = MultiObjective::try_from(v.clone());
    assert!(r2.is_ok() == all_legal, "try_from(Vec) accepts exactly all-legal vectors");
    if let (Ok(a), Ok(b)) = (r1, r2) {
        assert!(a.value().len() == n && b.value().len() == n, "length kept");
        let mut i = 0;
        let mut fin = true;
        while i < n {
            assert!(a.value()[i].to_bits() == v[i].to_bits() && b.value()[i].to_bits() == v[i].to_bits(), "components kept");
            fin &= v[i].is_finite();
            i += 1;
        }
        assert!(a.is_finite() == fin, "is_finite iff all finite");
        vcover!(true, "accepted");
        std::mem::forget(a);
        std::mem::forget(b);
    }
    std::mem::forget(v);
    all_legal
}

/// @h tier=quick bound="length 0" unwind=3
#[cfg_attr(kani, kani::proof)]
#[cfg_attr(kani, kani::unwind(3))]
pub fn h_c09_multi_tryfrom_len0() {
    multi_tryfrom(0);
}
/// @h tier=quick bound="length 1, all f64" unwind=3
#[cfg_attr(kani, kani::proof)]
#[cfg_attr(kani, kani::unwind(3))]
pub fn h_c09_multi_tryfrom_len1() {
    let ok = multi_tryfrom(1);
    vcover!(!ok, "rejected");
}
/// @h tier=quick bound="length 2, all f64" unwind=4
#[cfg_attr(kani, kani::proof)]
#[cfg_attr(kani, kani::unwind(4))]
pub fn h_c09_multi_tryfrom_len2() {
    let ok = multi_tryfrom(2);
    vcover!(!ok, "rejected");
}
/// @h tier=thorough bound="length 3, all f64" unwind=5
#[cfg_attr(kani, kani::proof)]
#[cfg_attr(kani, kani::unwind(5))]
pub fn h_c09_multi_tryfrom_len3() {
    let ok = multi_tryfrom(3);
    vcover!(!ok, "rejected");
}

/// Reference Pareto dominance for minimisation.
fn pareto(a: &[f64], b: &[f64]) -> Option<Ordering> {
    if a.len() != b.len() {
        return None;
    }
    let (mut lt, mut gt) = (false, false);
    let mut i = 0;
    while i < a.len() {
        if a[i] < b[i] {
            lt = true;
        }
        if a[i] > b[i] {
            gt = true;
        }
        i += 1;
    }
    match (lt, gt) {
        (false, false) => Some(Ordering::Equal),
        (true, false) => Some(Ordering::Less),
        (false, true) => Some(Ordering::Greater),
        (true, true) => None,
    }
}

fn multi_pair(n: usize, m: usize) -> Option<Ordering> {
    let (va, vb) = (legalvec(n), legalvec(m));
    // the two public constructors are interchangeable: one operand through each
    let a = MultiObjective::try_from(&va[..]).unwrap();
    let b = MultiObjective::try_from(vb.clone()).unwrap();
    let a2 = MultiObjective::try_from(va.clone()).unwrap();
    assert!(a == a2 && a.partial_cmp(&a2) == Some(Ordering::Equal), "a vector built from a slice equals the same vector built from a Vec");
    std::mem::forget(a2);
    let c = a.partial_cmp(&b);
    let d = b.partial_cmp(&a);
    assert!(c == pareto(&va, &vb), "partial_cmp is Pareto dominance");
    assert!(d == c.map(Ordering::reverse), "antisymmetric");
    assert!((c == Some(Ordering::Equal)) == (a == b), "Equal agrees with ==");
    if n != m {
        assert!(c.is_none(), "different lengths are incomparable");
    }
    assert!(a.partial_cmp(&a.clone()) == Some(Ordering::Equal), "identical vectors compare equal");
    std::mem::forget((a, b, va, vb));
    c
}

/// @h tier=quick bound="lengths (0,0)" unwind=3
#[cfg_attr(kani, kani::proof)]
#[cfg_attr(kani, kani::unwind(3))]
pub fn h_c09_multi_pair_0_0() {
    let a = MultiObjective::try_from(Vec::new()).unwrap();
    let b = MultiObjective::try_from(Vec::new()).unwrap();
    assert!(a.partial_cmp(&b) == Some(Ordering::Equal), "empty vectors equal");
    assert!(a == b, "empty vectors ==");
    vcover!(true, "reached");
}
/// @h tier=quick bound="lengths (1,1), all legal f64" unwind=3
#[cfg_attr(kani, kani::proof)]
#[cfg_attr(kani, kani::unwind(3))]
pub fn h_c09_multi_pair_1_1() {
    let c = multi_pair(1, 1);
    vcover!(c == Some(Ordering::Less), "dominates");
}
/// @h tier=quick bound="lengths (2,2), all legal f64" unwind=4
#[cfg_attr(kani, kani::proof)]
#[cfg_attr(kani, kani::unwind(4))]
pub fn h_c09_multi_pair_2_2() {
    let c = multi_pair(2, 2);
    vcover!(c == Some(Ordering::Less), "dominates");
    vcover!(c.is_none(), "incomparable");
}
/// @h tier=thorough bound="lengths (3,3), all legal f64" unwind=5
#[cfg_attr(kani, kani::proof)]
#[cfg_attr(kani, kani::unwind(5))]
pub fn h_c09_multi_pair_3_3() {
    let c = multi_pair(3, 3);
    vcover!(c == Some(Ordering::Less), "dominates");
    vcover!(c.is_none(), "incomparable");
}
/// @h tier=quick bound="lengths (1,2), all legal f64" unwind=4
#[cfg_attr(kani, kani::proof)]
#[cfg_attr(kani, kani::unwind(4))]
pub fn h_c09_multi_pair_1_2() {
    let c = multi_pair(1, 2);
    vcover!(c.is_none(), "incomparable");
}
/// @h tier=thorough bound="lengths (2,3), all legal f64" unwind=5
#[cfg_attr(kani, kani::proof)]
#[cfg_attr(kani, kani::unwind(5))]
pub fn h_c09_multi_pair_2_3() {
    let c = multi_pair(2, 3);
    vcover!(c.is_none(), "incomparable");
}

fn multi_trans(n: usize) {
    let (va, vb, vc) = (legalvec(n), legalvec(n), legalvec(n));
    let a = MultiObjective::try_from(va).unwrap();
    let b = MultiObjective::try_from(vb).unwrap();
    let c = MultiObjective::try_from(vc).unwrap();
    if a.partial_cmp(&b) == Some(Ordering::Less) && b.partial_cmp(&c) == Some(Ordering::Less) {
        assert!(a.partial_cmp(&c) == Some(Ordering::Less), "domination is transitive");
        vcover!(true, "chain");
    }
    if a.partial_cmp(&b) == Some(Ordering::Less) && b == c {
        assert!(a.partial_cmp(&c) == Some(Ordering::Less), "domination respects equality");
    }
    std::mem::forget((a, b, c));
}
/// @h tier=quick bound="triples of length 1" unwind=3
#[cfg_attr(kani, kani::proof)]
#[cfg_attr(kani, kani::unwind(3))]
pub fn h_c09_multi_trans_len1() {
    multi_trans(1)
}
/// @h tier=quick bound="triples of length 2" unwind=4
#[cfg_attr(kani, kani::proof)]
#[cfg_attr(kani, kani::unwind(4))]
pub fn h_c09_multi_trans_len2() {
    multi_trans(2)
}
/// @h tier=thorough bound="triples of length 3" unwind=5
#[cfg_attr(kani, kani::proof)]
#[cfg_attr(kani, kani::unwind(5))]
pub fn h_c09_multi_trans_len3() {
    multi_trans(3)
}
