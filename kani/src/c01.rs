//! c01 — harnesses not written yet.
