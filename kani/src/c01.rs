//! C01 — the state registry is a stack of typed maps with innermost-scope resolution.
//! Code: mahf::state::registry::StateRegistry::{new,insert,remove,take,contains,contains_at_top,find,find_mut,try_borrow,try_get_value,set_value,get_mut,entry,into_child,into_parent}
//! Code: mahf::state::registry::entry::{Entry,OccupiedEntry,VacantEntry}::* , mahf::state::registry::StateError
//! Out: more than 3 scopes (4 after a push), more than 2 live state types per scope (the code is uniform in the type and recursive in the parent link); behaviour of std's HashMap itself (replaced by the hook map H1)
//! Assume: one real operation from every registry shape (which scopes hold A) with symbolic stored values; afterwards every scope is popped and compared cell by cell with a stack-of-maps model (inductive step)
use better_any::{Tid, TidAble};
use derive_more::{Deref, DerefMut};
use mahf::state::registry::{Entry, StateRegistry};
use mahf::{CustomState, StateError};

use crate::sym;

#[derive(Tid, Deref, DerefMut, Default)]
pub struct A(pub u8);
impl CustomState<'_> for A {}
#[derive(Tid, Deref, DerefMut, Default)]
pub struct B(pub u8);
impl CustomState<'_> for B {}

type Model = [Option<u8>; 4];

fn innermost(m: &Model, depth: usize) -> Option<usize> {
    let mut s = depth;
    while s > 0 {
        s -= 1;
        if m[s].is_some() {
            return Some(s);
        }
    }
    None
}

/// Resolving reads agree with the model. (Each lookup of an absent type walks the whole parent
/// chain, which is what dominates the cost, so the number of resolving calls is kept small;
/// the full read-only API is exercised by the `reads` family.)
fn check_reads(reg: &StateRegistry<'static>, ma: &Model, mb: &Model, depth: usize, full: bool) {
    let ia = innermost(ma, depth);
    let ib = innermost(mb, depth);
    assert!(reg.contains_at_top::<A>() == ma[depth - 1].is_some(), "contains_at_top looks at the innermost scope only");
    match (reg.try_get_value::<A>(), ia) {
        (Ok(v), Some(s)) => assert!(Some(v) == ma[s], "lookup returns the value of the innermost scope holding the type"),
        (Err(StateError::NotFound(_)), None) => {}
        _ => assert!(false, "an absent type is reported as NotFound, a present one is found"),
    }
    if full {
        assert!(reg.contains::<A>() == ia.is_some(), "contains resolves through all scopes");
        assert!(reg.find::<A>().is_ok() == ia.is_some(), "find succeeds iff some scope holds the type");
        match (reg.try_borrow::<A>(), ia) {
            (Ok(r), Some(s)) => assert!(Some(r.0) == ma[s], "try_borrow returns the innermost value"),
            (Err(StateError::NotFound(_)), None) => {}
            _ => assert!(false, "try_borrow: NotFound iff absent"),
        }
        match (reg.try_get_value::<B>(), ib) {
            (Ok(v), Some(s)) => assert!(Some(v) == mb[s], "other types are unaffected"),
            (Err(StateError::NotFound(_)), None) => {}
            _ => assert!(false, "other types: NotFound iff absent"),
        }
    }
}

fn popped_matches(popped: &StateRegistry<'static>, ma: &Model, mb: &Model, s: usize) {
    assert!(popped.parent().is_none(), "the popped scope is a single map");
    assert!(popped.contains_at_top::<A>() == ma[s].is_some(), "popping a scope yields exactly the entries inserted into it (membership)");
    if ma[s].is_some() {
        assert!(popped.try_get_value::<A>().ok() == ma[s], "popping a scope yields exactly the entries inserted into it (value)");
    }
    assert!(popped.contains_at_top::<B>() == mb[s].is_some(), "popped scope: other type membership");
    if mb[s].is_some() {
        assert!(popped.try_get_value::<B>().ok() == mb[s], "popped scope: other type value");
    }
}

/// Pop every scope and compare it cell by cell with the model; after the first pop the
/// re-exposed values are also read through the resolving API.
fn read_back(reg: StateRegistry<'static>, ma: &Model, mb: &Model, depth: usize) {
    let mut cur = reg;
    let mut s = depth;
    loop {
        s -= 1;
        let (parent, popped) = cur.into_parent();
        popped_matches(&popped, ma, mb, s);
        std::mem::forget(popped);
        match parent {
            Some(p) => {
                assert!(s > 0, "a parent exists exactly below a child scope");
                cur = p;
                if s + 1 == depth {
                    check_reads(&cur, ma, mb, s, false);
                }
            }
            None => {
                assert!(s == 0, "the bottom scope has no parent");
                break;
            }
        }
    }
}

fn scenario(depth: usize, pres: [bool; 3], op: u8) {
    let mut ma: Model = [None; 4];
    let mut mb: Model = [None; 4];
    let mut reg = StateRegistry::new();
    let mut s = 0;
    while s < depth {
        if s > 0 {
            reg = reg.into_child();
        }
        if pres[s] {
            let v = sym::u8();
            assert!(reg.insert(A(v)).is_none(), "insert into a fresh scope reports no previous value");
            ma[s] = Some(v);
        }
        if s == 0 {
            let v = sym::u8();
            assert!(reg.insert(B(v)).is_none(), "insert B");
            mb[0] = Some(v);
        }
        s += 1;
    }
    let top = depth - 1;
    let mut depth = depth;
    let x = sym::u8();
    let ia = innermost(&ma, depth);
    match op {
        0 => check_reads(&reg, &ma, &mb, depth, true),
        1 => {
            let old = reg.insert(A(x));
            assert!(old.map(|a| a.0) == ma[top], "insert goes to the innermost scope and reports its previous value");
            ma[top] = Some(x);
        }
        2 => match (reg.remove::<A>(), ia) {
            (Ok(a), Some(s)) => {
                assert!(Some(a.0) == ma[s], "remove returns the innermost value");
                ma[s] = None;
            }
            (Err(StateError::NotFound(_)), None) => {}
            _ => assert!(false, "remove: NotFound iff absent"),
        },
        3 => {
            let old = reg.set_value::<A>(x);
            match ia {
                Some(s) => {
                    assert!(old == ma[s], "set_value returns the previous innermost value");
                    ma[s] = Some(x);
                }
                None => assert!(old.is_none(), "set_value on an absent type changes nothing"),
            }
        }
        4 => match (reg.get_mut::<A>(), ia) {
            (Some(a), Some(s)) => {
                assert!(Some(a.0) == ma[s], "get_mut resolves to the innermost scope");
                a.0 = x;
                ma[s] = Some(x);
            }
            (None, None) => {}
            _ => assert!(false, "get_mut: None iff absent"),
        },
        5 => {
            {
                let r = reg.entry::<A>().and_modify(|mut a| a.0 = x).or_insert(A(x.wrapping_add(1)));
                match ia {
                    Some(_) => assert!(r.0 == x, "and_modify runs on an occupied entry"),
                    None => assert!(r.0 == x.wrapping_add(1), "or_insert fills a vacant entry"),
                }
            }
            match ia {
                Some(s) => ma[s] = Some(x),
                None => ma[top] = Some(x.wrapping_add(1)),
            }
        }
        6 => {
            {
                let r = reg.entry::<A>().or_insert_with(|| A(x));
                match ia {
                    Some(s) => assert!(Some(r.0) == ma[s], "or_insert_with keeps an occupied entry"),
                    None => assert!(r.0 == x, "or_insert_with fills a vacant entry"),
                }
            }
            if ia.is_none() {
                ma[top] = Some(x);
            }
        }
        7 => {
            {
                let r = reg.entry::<A>().or_default();
                match ia {
                    Some(s) => assert!(Some(r.0) == ma[s], "or_default keeps an occupied entry"),
                    None => assert!(r.0 == 0, "or_default fills a vacant entry with the default"),
                }
            }
            if ia.is_none() {
                ma[top] = Some(0);
            }
        }
        8 => match reg.entry::<A>() {
            Entry::Occupied(mut o) => match ia {
                Some(s) => {
                    let old = o.insert(A(x));
                    assert!(Some(old.0) == ma[s], "OccupiedEntry::insert returns the innermost value");
                    ma[s] = Some(x);
                }
                None => assert!(false, "entry is occupied only if some scope holds the type"),
            },
            Entry::Vacant(v) => {
                assert!(ia.is_none(), "entry is vacant only if no scope holds the type");
                let r = v.insert(A(x));
                assert!(r.0 == x, "VacantEntry::insert returns the new value");
                drop(r);
                ma[top] = Some(x);
            }
        },
        9 => match reg.entry::<A>() {
            Entry::Occupied(o) => match ia {
                Some(s) => {
                    let old = o.remove();
                    assert!(Some(old.0) == ma[s], "OccupiedEntry::remove returns the innermost value");
                    ma[s] = None;
                }
                None => assert!(false, "entry is occupied only if some scope holds the type"),
            },
            Entry::Vacant(_) => assert!(ia.is_none(), "entry is vacant only if no scope holds the type"),
        },
        10 => match reg.entry::<A>() {
            Entry::Occupied(mut o) => match ia {
                Some(s) => {
                    assert!(Some(o.get().0) == ma[s], "OccupiedEntry::get reads the innermost value");
                    o.get_mut().0 = x;
                    let mut r = o.into_mut();
                    assert!(r.0 == x, "OccupiedEntry::get_mut writes through");
                    r.0 = x.wrapping_add(3);
                    drop(r);
                    ma[s] = Some(x.wrapping_add(3));
                }
                None => assert!(false, "entry is occupied only if some scope holds the type"),
            },
            Entry::Vacant(_) => assert!(ia.is_none(), "entry is vacant only if no scope holds the type"),
        },
        11 => {
            reg = reg.into_child();
            depth += 1;
            check_reads(&reg, &ma, &mb, depth, false);
            assert!(reg.insert(A(x)).is_none(), "a fresh scope holds nothing: insert reports no previous value even when the type is shadowed");
            ma[depth - 1] = Some(x);
        }
        _ => {
            {
                let _e = reg.entry::<A>().and_modify_value(|v| *v = x);
            }
            if let Some(s) = ia {
                ma[s] = Some(x);
            }
        }
    }
    check_reads(&reg, &ma, &mb, depth, false);
    read_back(reg, &ma, &mb, depth);
}

macro_rules! h {
    ($name:ident, $depth:expr, $pres:expr, $op:expr, $uw:expr) => {
        #[cfg_attr(kani, kani::proof)]
        #[cfg_attr(kani, kani::unwind($uw))]
        pub fn $name() {
            scenario($depth, $pres, $op);
            vcover!(true, "reached");
        }
    };
}

/// Lookups of several types at once resolve every type to ITS OWN innermost scope.
/// @h tier=quick bound="two scopes: A only in the parent, B in both (shadowed): get_multiple_mut (A,B) and (B,A)" unwind=6 memsafe=1 cost=3
#[cfg_attr(kani, kani::proof)]
#[cfg_attr(kani, kani::unwind(6))]
pub fn h_c01_multi_lookup_scopes() {
    let (a, b0, b1, x, y) = (sym::u8(), sym::u8(), sym::u8(), sym::u8(), sym::u8());
    let mut reg = StateRegistry::new();
    reg.insert(A(a));
    reg.insert(B(b0));
    let mut reg = reg.into_child();
    reg.insert(B(b1));
    match reg.try_get_multiple_mut::<(A, B)>() {
        Ok((ra, rb)) => {
            assert!(ra.0 == a && rb.0 == b1, "each type resolves to its own innermost scope");
            ra.0 = x;
            rb.0 = y;
        }
        Err(_) => assert!(false, "present types are found"),
    }
    match reg.try_get_multiple_mut::<(B, A)>() {
        Ok((rb, ra)) => assert!(ra.0 == x && rb.0 == y, "the order of the requested types does not matter"),
        Err(_) => assert!(false, "present types are found"),
    }
    let (p, top) = reg.into_parent();
    assert!(top.try_get_value::<B>().ok() == Some(y) && !top.contains_at_top::<A>(), "inner scope: B written, A never there");
    match p {
        Some(p) => {
            assert!(p.try_get_value::<B>().ok() == Some(b0) && p.try_get_value::<A>().ok() == Some(x), "shadowed outer B unchanged, outer A written");
            std::mem::forget(p);
        }
        None => assert!(false, "parent exists"),
    }
    vcover!(true, "reached");
    std::mem::forget(top);
}

// ==== generated harness list (tools/gen/gen_c01.py) ====
// @h tier=quick bound="depth 1, A present per scope (bottom..top) 0, B in the bottom scope; op reads; all stored values and arguments" unwind=4 mem=6 reclimit="mahf::state::(registry::)?StateRegistry::<.*>::find(_mut)?::<.*>=3"
h!(h_c01_reads_d1_0, 1, [false, false, false], 0, 4);
// @h tier=quick bound="depth 1, A present per scope (bottom..top) 0, B in the bottom scope; op insert; all stored values and arguments" unwind=4 mem=6 reclimit="mahf::state::(registry::)?StateRegistry::<.*>::find(_mut)?::<.*>=3"
h!(h_c01_insert_d1_0, 1, [false, false, false], 1, 4);
// @h tier=quick bound="depth 1, A present per scope (bottom..top) 0, B in the bottom scope; op remove; all stored values and arguments" unwind=4 mem=6 reclimit="mahf::state::(registry::)?StateRegistry::<.*>::find(_mut)?::<.*>=3"
h!(h_c01_remove_d1_0, 1, [false, false, false], 2, 4);
// @h tier=quick bound="depth 1, A present per scope (bottom..top) 0, B in the bottom scope; op set_value; all stored values and arguments" unwind=4 mem=6 reclimit="mahf::state::(registry::)?StateRegistry::<.*>::find(_mut)?::<.*>=3"
h!(h_c01_set_value_d1_0, 1, [false, false, false], 3, 4);
// @h tier=quick bound="depth 1, A present per scope (bottom..top) 0, B in the bottom scope; op get_mut; all stored values and arguments" unwind=4 mem=6 reclimit="mahf::state::(registry::)?StateRegistry::<.*>::find(_mut)?::<.*>=3"
h!(h_c01_get_mut_d1_0, 1, [false, false, false], 4, 4);
// @h tier=quick bound="depth 1, A present per scope (bottom..top) 0, B in the bottom scope; op and_modify_or_insert; all stored values and arguments" unwind=4 mem=6 reclimit="mahf::state::(registry::)?StateRegistry::<.*>::find(_mut)?::<.*>=3"
h!(h_c01_and_modify_or_insert_d1_0, 1, [false, false, false], 5, 4);
// @h tier=quick bound="depth 1, A present per scope (bottom..top) 0, B in the bottom scope; op or_insert_with; all stored values and arguments" unwind=4 mem=6 reclimit="mahf::state::(registry::)?StateRegistry::<.*>::find(_mut)?::<.*>=3"
h!(h_c01_or_insert_with_d1_0, 1, [false, false, false], 6, 4);
// @h tier=quick bound="depth 1, A present per scope (bottom..top) 0, B in the bottom scope; op or_default; all stored values and arguments" unwind=4 mem=6 reclimit="mahf::state::(registry::)?StateRegistry::<.*>::find(_mut)?::<.*>=3"
h!(h_c01_or_default_d1_0, 1, [false, false, false], 7, 4);
// @h tier=quick bound="depth 1, A present per scope (bottom..top) 0, B in the bottom scope; op entry_insert; all stored values and arguments" unwind=4 mem=6 reclimit="mahf::state::(registry::)?StateRegistry::<.*>::find(_mut)?::<.*>=3"
h!(h_c01_entry_insert_d1_0, 1, [false, false, false], 8, 4);
// @h tier=quick bound="depth 1, A present per scope (bottom..top) 0, B in the bottom scope; op entry_remove; all stored values and arguments" unwind=4 mem=6 reclimit="mahf::state::(registry::)?StateRegistry::<.*>::find(_mut)?::<.*>=3"
h!(h_c01_entry_remove_d1_0, 1, [false, false, false], 9, 4);
// @h tier=quick bound="depth 1, A present per scope (bottom..top) 0, B in the bottom scope; op entry_access; all stored values and arguments" unwind=4 mem=6 reclimit="mahf::state::(registry::)?StateRegistry::<.*>::find(_mut)?::<.*>=3"
h!(h_c01_entry_access_d1_0, 1, [false, false, false], 10, 4);
// @h tier=quick bound="depth 1, A present per scope (bottom..top) 0, B in the bottom scope; op push_scope; all stored values and arguments" unwind=4 mem=6 reclimit="mahf::state::(registry::)?StateRegistry::<.*>::find(_mut)?::<.*>=3"
h!(h_c01_push_scope_d1_0, 1, [false, false, false], 11, 4);
// @h tier=quick bound="depth 1, A present per scope (bottom..top) 0, B in the bottom scope; op and_modify_value; all stored values and arguments" unwind=4 mem=6 reclimit="mahf::state::(registry::)?StateRegistry::<.*>::find(_mut)?::<.*>=3"
h!(h_c01_and_modify_value_d1_0, 1, [false, false, false], 12, 4);
// @h tier=thorough bound="depth 1, A present per scope (bottom..top) 1, B in the bottom scope; op reads; all stored values and arguments" unwind=4 mem=6 reclimit="mahf::state::(registry::)?StateRegistry::<.*>::find(_mut)?::<.*>=3"
h!(h_c01_reads_d1_1, 1, [true, false, false], 0, 4);
// @h tier=thorough bound="depth 1, A present per scope (bottom..top) 1, B in the bottom scope; op insert; all stored values and arguments" unwind=4 mem=6 reclimit="mahf::state::(registry::)?StateRegistry::<.*>::find(_mut)?::<.*>=3"
h!(h_c01_insert_d1_1, 1, [true, false, false], 1, 4);
// @h tier=thorough bound="depth 1, A present per scope (bottom..top) 1, B in the bottom scope; op remove; all stored values and arguments" unwind=4 mem=6 reclimit="mahf::state::(registry::)?StateRegistry::<.*>::find(_mut)?::<.*>=3"
h!(h_c01_remove_d1_1, 1, [true, false, false], 2, 4);
// @h tier=thorough bound="depth 1, A present per scope (bottom..top) 1, B in the bottom scope; op set_value; all stored values and arguments" unwind=4 mem=6 reclimit="mahf::state::(registry::)?StateRegistry::<.*>::find(_mut)?::<.*>=3"
h!(h_c01_set_value_d1_1, 1, [true, false, false], 3, 4);
// @h tier=thorough bound="depth 1, A present per scope (bottom..top) 1, B in the bottom scope; op get_mut; all stored values and arguments" unwind=4 mem=6 reclimit="mahf::state::(registry::)?StateRegistry::<.*>::find(_mut)?::<.*>=3"
h!(h_c01_get_mut_d1_1, 1, [true, false, false], 4, 4);
// @h tier=thorough bound="depth 1, A present per scope (bottom..top) 1, B in the bottom scope; op and_modify_or_insert; all stored values and arguments" unwind=4 mem=6 reclimit="mahf::state::(registry::)?StateRegistry::<.*>::find(_mut)?::<.*>=3"
h!(h_c01_and_modify_or_insert_d1_1, 1, [true, false, false], 5, 4);
// @h tier=thorough bound="depth 1, A present per scope (bottom..top) 1, B in the bottom scope; op or_insert_with; all stored values and arguments" unwind=4 mem=6 reclimit="mahf::state::(registry::)?StateRegistry::<.*>::find(_mut)?::<.*>=3"
h!(h_c01_or_insert_with_d1_1, 1, [true, false, false], 6, 4);
// @h tier=thorough bound="depth 1, A present per scope (bottom..top) 1, B in the bottom scope; op or_default; all stored values and arguments" unwind=4 mem=6 reclimit="mahf::state::(registry::)?StateRegistry::<.*>::find(_mut)?::<.*>=3"
h!(h_c01_or_default_d1_1, 1, [true, false, false], 7, 4);
// @h tier=thorough bound="depth 1, A present per scope (bottom..top) 1, B in the bottom scope; op entry_insert; all stored values and arguments" unwind=4 mem=6 reclimit="mahf::state::(registry::)?StateRegistry::<.*>::find(_mut)?::<.*>=3"
h!(h_c01_entry_insert_d1_1, 1, [true, false, false], 8, 4);
// @h tier=thorough bound="depth 1, A present per scope (bottom..top) 1, B in the bottom scope; op entry_remove; all stored values and arguments" unwind=4 mem=6 reclimit="mahf::state::(registry::)?StateRegistry::<.*>::find(_mut)?::<.*>=3"
h!(h_c01_entry_remove_d1_1, 1, [true, false, false], 9, 4);
// @h tier=thorough bound="depth 1, A present per scope (bottom..top) 1, B in the bottom scope; op entry_access; all stored values and arguments" unwind=4 mem=6 reclimit="mahf::state::(registry::)?StateRegistry::<.*>::find(_mut)?::<.*>=3"
h!(h_c01_entry_access_d1_1, 1, [true, false, false], 10, 4);
// @h tier=thorough bound="depth 1, A present per scope (bottom..top) 1, B in the bottom scope; op push_scope; all stored values and arguments" unwind=4 mem=6 reclimit="mahf::state::(registry::)?StateRegistry::<.*>::find(_mut)?::<.*>=3"
h!(h_c01_push_scope_d1_1, 1, [true, false, false], 11, 4);
// @h tier=thorough bound="depth 1, A present per scope (bottom..top) 1, B in the bottom scope; op and_modify_value; all stored values and arguments" unwind=4 mem=6 reclimit="mahf::state::(registry::)?StateRegistry::<.*>::find(_mut)?::<.*>=3"
h!(h_c01_and_modify_value_d1_1, 1, [true, false, false], 12, 4);
// @h tier=thorough bound="depth 2, A present per scope (bottom..top) 00, B in the bottom scope; op reads; all stored values and arguments" unwind=5 mem=6 reclimit="mahf::state::(registry::)?StateRegistry::<.*>::find(_mut)?::<.*>=4"
h!(h_c01_reads_d2_00, 2, [false, false, false], 0, 5);
// @h tier=quick bound="depth 2, A present per scope (bottom..top) 00, B in the bottom scope; op insert; all stored values and arguments" unwind=5 mem=6 reclimit="mahf::state::(registry::)?StateRegistry::<.*>::find(_mut)?::<.*>=4"
h!(h_c01_insert_d2_00, 2, [false, false, false], 1, 5);
// @h tier=quick bound="depth 2, A present per scope (bottom..top) 00, B in the bottom scope; op remove; all stored values and arguments" unwind=5 mem=6 reclimit="mahf::state::(registry::)?StateRegistry::<.*>::find(_mut)?::<.*>=4"
h!(h_c01_remove_d2_00, 2, [false, false, false], 2, 5);
// @h tier=thorough bound="depth 2, A present per scope (bottom..top) 00, B in the bottom scope; op set_value; all stored values and arguments" unwind=5 mem=6 reclimit="mahf::state::(registry::)?StateRegistry::<.*>::find(_mut)?::<.*>=4"
h!(h_c01_set_value_d2_00, 2, [false, false, false], 3, 5);
// @h tier=thorough bound="depth 2, A present per scope (bottom..top) 00, B in the bottom scope; op get_mut; all stored values and arguments" unwind=5 mem=6 reclimit="mahf::state::(registry::)?StateRegistry::<.*>::find(_mut)?::<.*>=4"
h!(h_c01_get_mut_d2_00, 2, [false, false, false], 4, 5);
// @h tier=quick bound="depth 2, A present per scope (bottom..top) 00, B in the bottom scope; op and_modify_or_insert; all stored values and arguments" unwind=5 mem=12 reclimit="mahf::state::(registry::)?StateRegistry::<.*>::find(_mut)?::<.*>=4"
h!(h_c01_and_modify_or_insert_d2_00, 2, [false, false, false], 5, 5);
// @h tier=quick bound="depth 2, A present per scope (bottom..top) 00, B in the bottom scope; op or_insert_with; all stored values and arguments" unwind=5 mem=12 reclimit="mahf::state::(registry::)?StateRegistry::<.*>::find(_mut)?::<.*>=4"
h!(h_c01_or_insert_with_d2_00, 2, [false, false, false], 6, 5);
// @h tier=quick bound="depth 2, A present per scope (bottom..top) 00, B in the bottom scope; op or_default; all stored values and arguments" unwind=5 mem=12 reclimit="mahf::state::(registry::)?StateRegistry::<.*>::find(_mut)?::<.*>=4"
h!(h_c01_or_default_d2_00, 2, [false, false, false], 7, 5);
// @h tier=quick bound="depth 2, A present per scope (bottom..top) 00, B in the bottom scope; op entry_insert; all stored values and arguments" unwind=5 mem=12 reclimit="mahf::state::(registry::)?StateRegistry::<.*>::find(_mut)?::<.*>=4"
h!(h_c01_entry_insert_d2_00, 2, [false, false, false], 8, 5);
// @h tier=thorough bound="depth 2, A present per scope (bottom..top) 00, B in the bottom scope; op entry_remove; all stored values and arguments" unwind=5 mem=6 reclimit="mahf::state::(registry::)?StateRegistry::<.*>::find(_mut)?::<.*>=4"
h!(h_c01_entry_remove_d2_00, 2, [false, false, false], 9, 5);
// @h tier=thorough bound="depth 2, A present per scope (bottom..top) 00, B in the bottom scope; op entry_access; all stored values and arguments" unwind=5 mem=6 reclimit="mahf::state::(registry::)?StateRegistry::<.*>::find(_mut)?::<.*>=4"
h!(h_c01_entry_access_d2_00, 2, [false, false, false], 10, 5);
// @h tier=thorough bound="depth 2, A present per scope (bottom..top) 00, B in the bottom scope; op push_scope; all stored values and arguments" unwind=5 mem=6 reclimit="mahf::state::(registry::)?StateRegistry::<.*>::find(_mut)?::<.*>=4"
h!(h_c01_push_scope_d2_00, 2, [false, false, false], 11, 5);
// @h tier=thorough bound="depth 2, A present per scope (bottom..top) 00, B in the bottom scope; op and_modify_value; all stored values and arguments" unwind=5 mem=6 reclimit="mahf::state::(registry::)?StateRegistry::<.*>::find(_mut)?::<.*>=4"
h!(h_c01_and_modify_value_d2_00, 2, [false, false, false], 12, 5);
// @h tier=thorough bound="depth 2, A present per scope (bottom..top) 01, B in the bottom scope; op reads; all stored values and arguments" unwind=5 mem=6 reclimit="mahf::state::(registry::)?StateRegistry::<.*>::find(_mut)?::<.*>=4"
h!(h_c01_reads_d2_01, 2, [false, true, false], 0, 5);
// @h tier=thorough bound="depth 2, A present per scope (bottom..top) 01, B in the bottom scope; op insert; all stored values and arguments" unwind=5 mem=6 reclimit="mahf::state::(registry::)?StateRegistry::<.*>::find(_mut)?::<.*>=4"
h!(h_c01_insert_d2_01, 2, [false, true, false], 1, 5);
// @h tier=thorough bound="depth 2, A present per scope (bottom..top) 01, B in the bottom scope; op remove; all stored values and arguments" unwind=5 mem=6 reclimit="mahf::state::(registry::)?StateRegistry::<.*>::find(_mut)?::<.*>=4"
h!(h_c01_remove_d2_01, 2, [false, true, false], 2, 5);
// @h tier=thorough bound="depth 2, A present per scope (bottom..top) 01, B in the bottom scope; op set_value; all stored values and arguments" unwind=5 mem=6 reclimit="mahf::state::(registry::)?StateRegistry::<.*>::find(_mut)?::<.*>=4"
h!(h_c01_set_value_d2_01, 2, [false, true, false], 3, 5);
// @h tier=thorough bound="depth 2, A present per scope (bottom..top) 01, B in the bottom scope; op get_mut; all stored values and arguments" unwind=5 mem=6 reclimit="mahf::state::(registry::)?StateRegistry::<.*>::find(_mut)?::<.*>=4"
h!(h_c01_get_mut_d2_01, 2, [false, true, false], 4, 5);
// @h tier=thorough bound="depth 2, A present per scope (bottom..top) 01, B in the bottom scope; op and_modify_or_insert; all stored values and arguments" unwind=5 mem=6 reclimit="mahf::state::(registry::)?StateRegistry::<.*>::find(_mut)?::<.*>=4"
h!(h_c01_and_modify_or_insert_d2_01, 2, [false, true, false], 5, 5);
// @h tier=thorough bound="depth 2, A present per scope (bottom..top) 01, B in the bottom scope; op or_insert_with; all stored values and arguments" unwind=5 mem=6 reclimit="mahf::state::(registry::)?StateRegistry::<.*>::find(_mut)?::<.*>=4"
h!(h_c01_or_insert_with_d2_01, 2, [false, true, false], 6, 5);
// @h tier=thorough bound="depth 2, A present per scope (bottom..top) 01, B in the bottom scope; op or_default; all stored values and arguments" unwind=5 mem=6 reclimit="mahf::state::(registry::)?StateRegistry::<.*>::find(_mut)?::<.*>=4"
h!(h_c01_or_default_d2_01, 2, [false, true, false], 7, 5);
// @h tier=thorough bound="depth 2, A present per scope (bottom..top) 01, B in the bottom scope; op entry_insert; all stored values and arguments" unwind=5 mem=6 reclimit="mahf::state::(registry::)?StateRegistry::<.*>::find(_mut)?::<.*>=4"
h!(h_c01_entry_insert_d2_01, 2, [false, true, false], 8, 5);
// @h tier=thorough bound="depth 2, A present per scope (bottom..top) 01, B in the bottom scope; op entry_remove; all stored values and arguments" unwind=5 mem=6 reclimit="mahf::state::(registry::)?StateRegistry::<.*>::find(_mut)?::<.*>=4"
h!(h_c01_entry_remove_d2_01, 2, [false, true, false], 9, 5);
// @h tier=thorough bound="depth 2, A present per scope (bottom..top) 01, B in the bottom scope; op entry_access; all stored values and arguments" unwind=5 mem=6 reclimit="mahf::state::(registry::)?StateRegistry::<.*>::find(_mut)?::<.*>=4"
h!(h_c01_entry_access_d2_01, 2, [false, true, false], 10, 5);
// @h tier=thorough bound="depth 2, A present per scope (bottom..top) 01, B in the bottom scope; op push_scope; all stored values and arguments" unwind=5 mem=6 reclimit="mahf::state::(registry::)?StateRegistry::<.*>::find(_mut)?::<.*>=4"
h!(h_c01_push_scope_d2_01, 2, [false, true, false], 11, 5);
// @h tier=thorough bound="depth 2, A present per scope (bottom..top) 01, B in the bottom scope; op and_modify_value; all stored values and arguments" unwind=5 mem=6 reclimit="mahf::state::(registry::)?StateRegistry::<.*>::find(_mut)?::<.*>=4"
h!(h_c01_and_modify_value_d2_01, 2, [false, true, false], 12, 5);
// @h tier=quick bound="depth 2, A present per scope (bottom..top) 10, B in the bottom scope; op reads; all stored values and arguments" unwind=5 mem=6 reclimit="mahf::state::(registry::)?StateRegistry::<.*>::find(_mut)?::<.*>=4"
h!(h_c01_reads_d2_10, 2, [true, false, false], 0, 5);
// @h tier=quick bound="depth 2, A present per scope (bottom..top) 10, B in the bottom scope; op insert; all stored values and arguments" unwind=5 mem=6 reclimit="mahf::state::(registry::)?StateRegistry::<.*>::find(_mut)?::<.*>=4"
h!(h_c01_insert_d2_10, 2, [true, false, false], 1, 5);
// @h tier=quick bound="depth 2, A present per scope (bottom..top) 10, B in the bottom scope; op remove; all stored values and arguments" unwind=5 mem=6 reclimit="mahf::state::(registry::)?StateRegistry::<.*>::find(_mut)?::<.*>=4"
h!(h_c01_remove_d2_10, 2, [true, false, false], 2, 5);
// @h tier=quick bound="depth 2, A present per scope (bottom..top) 10, B in the bottom scope; op set_value; all stored values and arguments" unwind=5 mem=6 reclimit="mahf::state::(registry::)?StateRegistry::<.*>::find(_mut)?::<.*>=4"
h!(h_c01_set_value_d2_10, 2, [true, false, false], 3, 5);
// @h tier=quick bound="depth 2, A present per scope (bottom..top) 10, B in the bottom scope; op get_mut; all stored values and arguments" unwind=5 mem=6 reclimit="mahf::state::(registry::)?StateRegistry::<.*>::find(_mut)?::<.*>=4"
h!(h_c01_get_mut_d2_10, 2, [true, false, false], 4, 5);
// @h tier=quick bound="depth 2, A present per scope (bottom..top) 10, B in the bottom scope; op and_modify_or_insert; all stored values and arguments" unwind=5 mem=6 reclimit="mahf::state::(registry::)?StateRegistry::<.*>::find(_mut)?::<.*>=4"
h!(h_c01_and_modify_or_insert_d2_10, 2, [true, false, false], 5, 5);
// @h tier=quick bound="depth 2, A present per scope (bottom..top) 10, B in the bottom scope; op or_insert_with; all stored values and arguments" unwind=5 mem=6 reclimit="mahf::state::(registry::)?StateRegistry::<.*>::find(_mut)?::<.*>=4"
h!(h_c01_or_insert_with_d2_10, 2, [true, false, false], 6, 5);
// @h tier=quick bound="depth 2, A present per scope (bottom..top) 10, B in the bottom scope; op or_default; all stored values and arguments" unwind=5 mem=6 reclimit="mahf::state::(registry::)?StateRegistry::<.*>::find(_mut)?::<.*>=4"
h!(h_c01_or_default_d2_10, 2, [true, false, false], 7, 5);
// @h tier=quick bound="depth 2, A present per scope (bottom..top) 10, B in the bottom scope; op entry_insert; all stored values and arguments" unwind=5 mem=6 reclimit="mahf::state::(registry::)?StateRegistry::<.*>::find(_mut)?::<.*>=4"
h!(h_c01_entry_insert_d2_10, 2, [true, false, false], 8, 5);
// @h tier=quick bound="depth 2, A present per scope (bottom..top) 10, B in the bottom scope; op entry_remove; all stored values and arguments" unwind=5 mem=6 reclimit="mahf::state::(registry::)?StateRegistry::<.*>::find(_mut)?::<.*>=4"
h!(h_c01_entry_remove_d2_10, 2, [true, false, false], 9, 5);
// @h tier=quick bound="depth 2, A present per scope (bottom..top) 10, B in the bottom scope; op entry_access; all stored values and arguments" unwind=5 mem=6 reclimit="mahf::state::(registry::)?StateRegistry::<.*>::find(_mut)?::<.*>=4"
h!(h_c01_entry_access_d2_10, 2, [true, false, false], 10, 5);
// @h tier=quick bound="depth 2, A present per scope (bottom..top) 10, B in the bottom scope; op push_scope; all stored values and arguments" unwind=5 mem=6 reclimit="mahf::state::(registry::)?StateRegistry::<.*>::find(_mut)?::<.*>=4"
h!(h_c01_push_scope_d2_10, 2, [true, false, false], 11, 5);
// @h tier=quick bound="depth 2, A present per scope (bottom..top) 10, B in the bottom scope; op and_modify_value; all stored values and arguments" unwind=5 mem=6 reclimit="mahf::state::(registry::)?StateRegistry::<.*>::find(_mut)?::<.*>=4"
h!(h_c01_and_modify_value_d2_10, 2, [true, false, false], 12, 5);
// @h tier=quick bound="depth 2, A present per scope (bottom..top) 11, B in the bottom scope; op reads; all stored values and arguments" unwind=5 mem=6 reclimit="mahf::state::(registry::)?StateRegistry::<.*>::find(_mut)?::<.*>=4"
h!(h_c01_reads_d2_11, 2, [true, true, false], 0, 5);
// @h tier=quick bound="depth 2, A present per scope (bottom..top) 11, B in the bottom scope; op insert; all stored values and arguments" unwind=5 mem=6 reclimit="mahf::state::(registry::)?StateRegistry::<.*>::find(_mut)?::<.*>=4"
h!(h_c01_insert_d2_11, 2, [true, true, false], 1, 5);
// @h tier=quick bound="depth 2, A present per scope (bottom..top) 11, B in the bottom scope; op remove; all stored values and arguments" unwind=5 mem=6 reclimit="mahf::state::(registry::)?StateRegistry::<.*>::find(_mut)?::<.*>=4"
h!(h_c01_remove_d2_11, 2, [true, true, false], 2, 5);
// @h tier=quick bound="depth 2, A present per scope (bottom..top) 11, B in the bottom scope; op set_value; all stored values and arguments" unwind=5 mem=6 reclimit="mahf::state::(registry::)?StateRegistry::<.*>::find(_mut)?::<.*>=4"
h!(h_c01_set_value_d2_11, 2, [true, true, false], 3, 5);
// @h tier=quick bound="depth 2, A present per scope (bottom..top) 11, B in the bottom scope; op get_mut; all stored values and arguments" unwind=5 mem=6 reclimit="mahf::state::(registry::)?StateRegistry::<.*>::find(_mut)?::<.*>=4"
h!(h_c01_get_mut_d2_11, 2, [true, true, false], 4, 5);
// @h tier=quick bound="depth 2, A present per scope (bottom..top) 11, B in the bottom scope; op and_modify_or_insert; all stored values and arguments" unwind=5 mem=6 reclimit="mahf::state::(registry::)?StateRegistry::<.*>::find(_mut)?::<.*>=4"
h!(h_c01_and_modify_or_insert_d2_11, 2, [true, true, false], 5, 5);
// @h tier=quick bound="depth 2, A present per scope (bottom..top) 11, B in the bottom scope; op or_insert_with; all stored values and arguments" unwind=5 mem=6 reclimit="mahf::state::(registry::)?StateRegistry::<.*>::find(_mut)?::<.*>=4"
h!(h_c01_or_insert_with_d2_11, 2, [true, true, false], 6, 5);
// @h tier=quick bound="depth 2, A present per scope (bottom..top) 11, B in the bottom scope; op or_default; all stored values and arguments" unwind=5 mem=6 reclimit="mahf::state::(registry::)?StateRegistry::<.*>::find(_mut)?::<.*>=4"
h!(h_c01_or_default_d2_11, 2, [true, true, false], 7, 5);
// @h tier=quick bound="depth 2, A present per scope (bottom..top) 11, B in the bottom scope; op entry_insert; all stored values and arguments" unwind=5 mem=6 reclimit="mahf::state::(registry::)?StateRegistry::<.*>::find(_mut)?::<.*>=4"
h!(h_c01_entry_insert_d2_11, 2, [true, true, false], 8, 5);
// @h tier=quick bound="depth 2, A present per scope (bottom..top) 11, B in the bottom scope; op entry_remove; all stored values and arguments" unwind=5 mem=6 reclimit="mahf::state::(registry::)?StateRegistry::<.*>::find(_mut)?::<.*>=4"
h!(h_c01_entry_remove_d2_11, 2, [true, true, false], 9, 5);
// @h tier=quick bound="depth 2, A present per scope (bottom..top) 11, B in the bottom scope; op entry_access; all stored values and arguments" unwind=5 mem=6 reclimit="mahf::state::(registry::)?StateRegistry::<.*>::find(_mut)?::<.*>=4"
h!(h_c01_entry_access_d2_11, 2, [true, true, false], 10, 5);
// @h tier=quick bound="depth 2, A present per scope (bottom..top) 11, B in the bottom scope; op push_scope; all stored values and arguments" unwind=5 mem=6 reclimit="mahf::state::(registry::)?StateRegistry::<.*>::find(_mut)?::<.*>=4"
h!(h_c01_push_scope_d2_11, 2, [true, true, false], 11, 5);
// @h tier=quick bound="depth 2, A present per scope (bottom..top) 11, B in the bottom scope; op and_modify_value; all stored values and arguments" unwind=5 mem=6 reclimit="mahf::state::(registry::)?StateRegistry::<.*>::find(_mut)?::<.*>=4"
h!(h_c01_and_modify_value_d2_11, 2, [true, true, false], 12, 5);
// @h tier=thorough bound="depth 3, A present per scope (bottom..top) 000, B in the bottom scope; op reads; all stored values and arguments" unwind=6 mem=6 reclimit="mahf::state::(registry::)?StateRegistry::<.*>::find(_mut)?::<.*>=5"
h!(h_c01_reads_d3_000, 3, [false, false, false], 0, 6);
// @h tier=thorough bound="depth 3, A present per scope (bottom..top) 000, B in the bottom scope; op insert; all stored values and arguments" unwind=6 mem=6 reclimit="mahf::state::(registry::)?StateRegistry::<.*>::find(_mut)?::<.*>=5"
h!(h_c01_insert_d3_000, 3, [false, false, false], 1, 6);
// @h tier=thorough bound="depth 3, A present per scope (bottom..top) 000, B in the bottom scope; op remove; all stored values and arguments" unwind=6 mem=6 reclimit="mahf::state::(registry::)?StateRegistry::<.*>::find(_mut)?::<.*>=5"
h!(h_c01_remove_d3_000, 3, [false, false, false], 2, 6);
// @h tier=thorough bound="depth 3, A present per scope (bottom..top) 000, B in the bottom scope; op set_value; all stored values and arguments" unwind=6 mem=6 reclimit="mahf::state::(registry::)?StateRegistry::<.*>::find(_mut)?::<.*>=5"
h!(h_c01_set_value_d3_000, 3, [false, false, false], 3, 6);
// @h tier=thorough bound="depth 3, A present per scope (bottom..top) 000, B in the bottom scope; op get_mut; all stored values and arguments" unwind=6 mem=6 reclimit="mahf::state::(registry::)?StateRegistry::<.*>::find(_mut)?::<.*>=5"
h!(h_c01_get_mut_d3_000, 3, [false, false, false], 4, 6);
// @h tier=thorough bound="depth 3, A present per scope (bottom..top) 000, B in the bottom scope; op and_modify_or_insert; all stored values and arguments" unwind=6 mem=6 reclimit="mahf::state::(registry::)?StateRegistry::<.*>::find(_mut)?::<.*>=5"
h!(h_c01_and_modify_or_insert_d3_000, 3, [false, false, false], 5, 6);
// @h tier=thorough bound="depth 3, A present per scope (bottom..top) 000, B in the bottom scope; op or_insert_with; all stored values and arguments" unwind=6 mem=6 reclimit="mahf::state::(registry::)?StateRegistry::<.*>::find(_mut)?::<.*>=5"
h!(h_c01_or_insert_with_d3_000, 3, [false, false, false], 6, 6);
// @h tier=thorough bound="depth 3, A present per scope (bottom..top) 000, B in the bottom scope; op or_default; all stored values and arguments" unwind=6 mem=6 reclimit="mahf::state::(registry::)?StateRegistry::<.*>::find(_mut)?::<.*>=5"
h!(h_c01_or_default_d3_000, 3, [false, false, false], 7, 6);
// @h tier=thorough bound="depth 3, A present per scope (bottom..top) 000, B in the bottom scope; op entry_insert; all stored values and arguments" unwind=6 mem=6 reclimit="mahf::state::(registry::)?StateRegistry::<.*>::find(_mut)?::<.*>=5"
h!(h_c01_entry_insert_d3_000, 3, [false, false, false], 8, 6);
// @h tier=thorough bound="depth 3, A present per scope (bottom..top) 000, B in the bottom scope; op entry_remove; all stored values and arguments" unwind=6 mem=6 reclimit="mahf::state::(registry::)?StateRegistry::<.*>::find(_mut)?::<.*>=5"
h!(h_c01_entry_remove_d3_000, 3, [false, false, false], 9, 6);
// @h tier=thorough bound="depth 3, A present per scope (bottom..top) 000, B in the bottom scope; op entry_access; all stored values and arguments" unwind=6 mem=6 reclimit="mahf::state::(registry::)?StateRegistry::<.*>::find(_mut)?::<.*>=5"
h!(h_c01_entry_access_d3_000, 3, [false, false, false], 10, 6);
// @h tier=thorough bound="depth 3, A present per scope (bottom..top) 000, B in the bottom scope; op push_scope; all stored values and arguments" unwind=6 mem=6 reclimit="mahf::state::(registry::)?StateRegistry::<.*>::find(_mut)?::<.*>=5"
h!(h_c01_push_scope_d3_000, 3, [false, false, false], 11, 6);
// @h tier=thorough bound="depth 3, A present per scope (bottom..top) 000, B in the bottom scope; op and_modify_value; all stored values and arguments" unwind=6 mem=6 reclimit="mahf::state::(registry::)?StateRegistry::<.*>::find(_mut)?::<.*>=5"
h!(h_c01_and_modify_value_d3_000, 3, [false, false, false], 12, 6);
// @h tier=thorough bound="depth 3, A present per scope (bottom..top) 001, B in the bottom scope; op reads; all stored values and arguments" unwind=6 mem=6 reclimit="mahf::state::(registry::)?StateRegistry::<.*>::find(_mut)?::<.*>=5"
h!(h_c01_reads_d3_001, 3, [false, false, true], 0, 6);
// @h tier=thorough bound="depth 3, A present per scope (bottom..top) 001, B in the bottom scope; op insert; all stored values and arguments" unwind=6 mem=6 reclimit="mahf::state::(registry::)?StateRegistry::<.*>::find(_mut)?::<.*>=5"
h!(h_c01_insert_d3_001, 3, [false, false, true], 1, 6);
// @h tier=thorough bound="depth 3, A present per scope (bottom..top) 001, B in the bottom scope; op remove; all stored values and arguments" unwind=6 mem=6 reclimit="mahf::state::(registry::)?StateRegistry::<.*>::find(_mut)?::<.*>=5"
h!(h_c01_remove_d3_001, 3, [false, false, true], 2, 6);
// @h tier=thorough bound="depth 3, A present per scope (bottom..top) 001, B in the bottom scope; op set_value; all stored values and arguments" unwind=6 mem=6 reclimit="mahf::state::(registry::)?StateRegistry::<.*>::find(_mut)?::<.*>=5"
h!(h_c01_set_value_d3_001, 3, [false, false, true], 3, 6);
// @h tier=thorough bound="depth 3, A present per scope (bottom..top) 001, B in the bottom scope; op get_mut; all stored values and arguments" unwind=6 mem=6 reclimit="mahf::state::(registry::)?StateRegistry::<.*>::find(_mut)?::<.*>=5"
h!(h_c01_get_mut_d3_001, 3, [false, false, true], 4, 6);
// @h tier=thorough bound="depth 3, A present per scope (bottom..top) 001, B in the bottom scope; op and_modify_or_insert; all stored values and arguments" unwind=6 mem=6 reclimit="mahf::state::(registry::)?StateRegistry::<.*>::find(_mut)?::<.*>=5"
h!(h_c01_and_modify_or_insert_d3_001, 3, [false, false, true], 5, 6);
// @h tier=thorough bound="depth 3, A present per scope (bottom..top) 001, B in the bottom scope; op or_insert_with; all stored values and arguments" unwind=6 mem=6 reclimit="mahf::state::(registry::)?StateRegistry::<.*>::find(_mut)?::<.*>=5"
h!(h_c01_or_insert_with_d3_001, 3, [false, false, true], 6, 6);
// @h tier=thorough bound="depth 3, A present per scope (bottom..top) 001, B in the bottom scope; op or_default; all stored values and arguments" unwind=6 mem=6 reclimit="mahf::state::(registry::)?StateRegistry::<.*>::find(_mut)?::<.*>=5"
h!(h_c01_or_default_d3_001, 3, [false, false, true], 7, 6);
// @h tier=thorough bound="depth 3, A present per scope (bottom..top) 001, B in the bottom scope; op entry_insert; all stored values and arguments" unwind=6 mem=6 reclimit="mahf::state::(registry::)?StateRegistry::<.*>::find(_mut)?::<.*>=5"
h!(h_c01_entry_insert_d3_001, 3, [false, false, true], 8, 6);
// @h tier=thorough bound="depth 3, A present per scope (bottom..top) 001, B in the bottom scope; op entry_remove; all stored values and arguments" unwind=6 mem=6 reclimit="mahf::state::(registry::)?StateRegistry::<.*>::find(_mut)?::<.*>=5"
h!(h_c01_entry_remove_d3_001, 3, [false, false, true], 9, 6);
// @h tier=thorough bound="depth 3, A present per scope (bottom..top) 001, B in the bottom scope; op entry_access; all stored values and arguments" unwind=6 mem=6 reclimit="mahf::state::(registry::)?StateRegistry::<.*>::find(_mut)?::<.*>=5"
h!(h_c01_entry_access_d3_001, 3, [false, false, true], 10, 6);
// @h tier=thorough bound="depth 3, A present per scope (bottom..top) 001, B in the bottom scope; op push_scope; all stored values and arguments" unwind=6 mem=6 reclimit="mahf::state::(registry::)?StateRegistry::<.*>::find(_mut)?::<.*>=5"
h!(h_c01_push_scope_d3_001, 3, [false, false, true], 11, 6);
// @h tier=thorough bound="depth 3, A present per scope (bottom..top) 001, B in the bottom scope; op and_modify_value; all stored values and arguments" unwind=6 mem=6 reclimit="mahf::state::(registry::)?StateRegistry::<.*>::find(_mut)?::<.*>=5"
h!(h_c01_and_modify_value_d3_001, 3, [false, false, true], 12, 6);
// @h tier=thorough bound="depth 3, A present per scope (bottom..top) 010, B in the bottom scope; op reads; all stored values and arguments" unwind=6 mem=6 reclimit="mahf::state::(registry::)?StateRegistry::<.*>::find(_mut)?::<.*>=5"
h!(h_c01_reads_d3_010, 3, [false, true, false], 0, 6);
// @h tier=thorough bound="depth 3, A present per scope (bottom..top) 010, B in the bottom scope; op insert; all stored values and arguments" unwind=6 mem=6 reclimit="mahf::state::(registry::)?StateRegistry::<.*>::find(_mut)?::<.*>=5"
h!(h_c01_insert_d3_010, 3, [false, true, false], 1, 6);
// @h tier=thorough bound="depth 3, A present per scope (bottom..top) 010, B in the bottom scope; op remove; all stored values and arguments" unwind=6 mem=6 reclimit="mahf::state::(registry::)?StateRegistry::<.*>::find(_mut)?::<.*>=5"
h!(h_c01_remove_d3_010, 3, [false, true, false], 2, 6);
// @h tier=thorough bound="depth 3, A present per scope (bottom..top) 010, B in the bottom scope; op set_value; all stored values and arguments" unwind=6 mem=6 reclimit="mahf::state::(registry::)?StateRegistry::<.*>::find(_mut)?::<.*>=5"
h!(h_c01_set_value_d3_010, 3, [false, true, false], 3, 6);
// @h tier=thorough bound="depth 3, A present per scope (bottom..top) 010, B in the bottom scope; op get_mut; all stored values and arguments" unwind=6 mem=6 reclimit="mahf::state::(registry::)?StateRegistry::<.*>::find(_mut)?::<.*>=5"
h!(h_c01_get_mut_d3_010, 3, [false, true, false], 4, 6);
// @h tier=thorough bound="depth 3, A present per scope (bottom..top) 010, B in the bottom scope; op and_modify_or_insert; all stored values and arguments" unwind=6 mem=6 reclimit="mahf::state::(registry::)?StateRegistry::<.*>::find(_mut)?::<.*>=5"
h!(h_c01_and_modify_or_insert_d3_010, 3, [false, true, false], 5, 6);
// @h tier=thorough bound="depth 3, A present per scope (bottom..top) 010, B in the bottom scope; op or_insert_with; all stored values and arguments" unwind=6 mem=6 reclimit="mahf::state::(registry::)?StateRegistry::<.*>::find(_mut)?::<.*>=5"
h!(h_c01_or_insert_with_d3_010, 3, [false, true, false], 6, 6);
// @h tier=thorough bound="depth 3, A present per scope (bottom..top) 010, B in the bottom scope; op or_default; all stored values and arguments" unwind=6 mem=6 reclimit="mahf::state::(registry::)?StateRegistry::<.*>::find(_mut)?::<.*>=5"
h!(h_c01_or_default_d3_010, 3, [false, true, false], 7, 6);
// @h tier=thorough bound="depth 3, A present per scope (bottom..top) 010, B in the bottom scope; op entry_insert; all stored values and arguments" unwind=6 mem=6 reclimit="mahf::state::(registry::)?StateRegistry::<.*>::find(_mut)?::<.*>=5"
h!(h_c01_entry_insert_d3_010, 3, [false, true, false], 8, 6);
// @h tier=thorough bound="depth 3, A present per scope (bottom..top) 010, B in the bottom scope; op entry_remove; all stored values and arguments" unwind=6 mem=6 reclimit="mahf::state::(registry::)?StateRegistry::<.*>::find(_mut)?::<.*>=5"
h!(h_c01_entry_remove_d3_010, 3, [false, true, false], 9, 6);
// @h tier=thorough bound="depth 3, A present per scope (bottom..top) 010, B in the bottom scope; op entry_access; all stored values and arguments" unwind=6 mem=6 reclimit="mahf::state::(registry::)?StateRegistry::<.*>::find(_mut)?::<.*>=5"
h!(h_c01_entry_access_d3_010, 3, [false, true, false], 10, 6);
// @h tier=thorough bound="depth 3, A present per scope (bottom..top) 010, B in the bottom scope; op push_scope; all stored values and arguments" unwind=6 mem=6 reclimit="mahf::state::(registry::)?StateRegistry::<.*>::find(_mut)?::<.*>=5"
h!(h_c01_push_scope_d3_010, 3, [false, true, false], 11, 6);
// @h tier=thorough bound="depth 3, A present per scope (bottom..top) 010, B in the bottom scope; op and_modify_value; all stored values and arguments" unwind=6 mem=6 reclimit="mahf::state::(registry::)?StateRegistry::<.*>::find(_mut)?::<.*>=5"
h!(h_c01_and_modify_value_d3_010, 3, [false, true, false], 12, 6);
// @h tier=thorough bound="depth 3, A present per scope (bottom..top) 011, B in the bottom scope; op reads; all stored values and arguments" unwind=6 mem=6 reclimit="mahf::state::(registry::)?StateRegistry::<.*>::find(_mut)?::<.*>=5"
h!(h_c01_reads_d3_011, 3, [false, true, true], 0, 6);
// @h tier=thorough bound="depth 3, A present per scope (bottom..top) 011, B in the bottom scope; op insert; all stored values and arguments" unwind=6 mem=6 reclimit="mahf::state::(registry::)?StateRegistry::<.*>::find(_mut)?::<.*>=5"
h!(h_c01_insert_d3_011, 3, [false, true, true], 1, 6);
// @h tier=thorough bound="depth 3, A present per scope (bottom..top) 011, B in the bottom scope; op remove; all stored values and arguments" unwind=6 mem=6 reclimit="mahf::state::(registry::)?StateRegistry::<.*>::find(_mut)?::<.*>=5"
h!(h_c01_remove_d3_011, 3, [false, true, true], 2, 6);
// @h tier=thorough bound="depth 3, A present per scope (bottom..top) 011, B in the bottom scope; op set_value; all stored values and arguments" unwind=6 mem=6 reclimit="mahf::state::(registry::)?StateRegistry::<.*>::find(_mut)?::<.*>=5"
h!(h_c01_set_value_d3_011, 3, [false, true, true], 3, 6);
// @h tier=thorough bound="depth 3, A present per scope (bottom..top) 011, B in the bottom scope; op get_mut; all stored values and arguments" unwind=6 mem=6 reclimit="mahf::state::(registry::)?StateRegistry::<.*>::find(_mut)?::<.*>=5"
h!(h_c01_get_mut_d3_011, 3, [false, true, true], 4, 6);
// @h tier=thorough bound="depth 3, A present per scope (bottom..top) 011, B in the bottom scope; op and_modify_or_insert; all stored values and arguments" unwind=6 mem=6 reclimit="mahf::state::(registry::)?StateRegistry::<.*>::find(_mut)?::<.*>=5"
h!(h_c01_and_modify_or_insert_d3_011, 3, [false, true, true], 5, 6);
// @h tier=thorough bound="depth 3, A present per scope (bottom..top) 011, B in the bottom scope; op or_insert_with; all stored values and arguments" unwind=6 mem=6 reclimit="mahf::state::(registry::)?StateRegistry::<.*>::find(_mut)?::<.*>=5"
h!(h_c01_or_insert_with_d3_011, 3, [false, true, true], 6, 6);
// @h tier=thorough bound="depth 3, A present per scope (bottom..top) 011, B in the bottom scope; op or_default; all stored values and arguments" unwind=6 mem=6 reclimit="mahf::state::(registry::)?StateRegistry::<.*>::find(_mut)?::<.*>=5"
h!(h_c01_or_default_d3_011, 3, [false, true, true], 7, 6);
// @h tier=thorough bound="depth 3, A present per scope (bottom..top) 011, B in the bottom scope; op entry_insert; all stored values and arguments" unwind=6 mem=6 reclimit="mahf::state::(registry::)?StateRegistry::<.*>::find(_mut)?::<.*>=5"
h!(h_c01_entry_insert_d3_011, 3, [false, true, true], 8, 6);
// @h tier=thorough bound="depth 3, A present per scope (bottom..top) 011, B in the bottom scope; op entry_remove; all stored values and arguments" unwind=6 mem=6 reclimit="mahf::state::(registry::)?StateRegistry::<.*>::find(_mut)?::<.*>=5"
h!(h_c01_entry_remove_d3_011, 3, [false, true, true], 9, 6);
// @h tier=thorough bound="depth 3, A present per scope (bottom..top) 011, B in the bottom scope; op entry_access; all stored values and arguments" unwind=6 mem=6 reclimit="mahf::state::(registry::)?StateRegistry::<.*>::find(_mut)?::<.*>=5"
h!(h_c01_entry_access_d3_011, 3, [false, true, true], 10, 6);
// @h tier=thorough bound="depth 3, A present per scope (bottom..top) 011, B in the bottom scope; op push_scope; all stored values and arguments" unwind=6 mem=6 reclimit="mahf::state::(registry::)?StateRegistry::<.*>::find(_mut)?::<.*>=5"
h!(h_c01_push_scope_d3_011, 3, [false, true, true], 11, 6);
// @h tier=thorough bound="depth 3, A present per scope (bottom..top) 011, B in the bottom scope; op and_modify_value; all stored values and arguments" unwind=6 mem=6 reclimit="mahf::state::(registry::)?StateRegistry::<.*>::find(_mut)?::<.*>=5"
h!(h_c01_and_modify_value_d3_011, 3, [false, true, true], 12, 6);
// @h tier=thorough bound="depth 3, A present per scope (bottom..top) 100, B in the bottom scope; op reads; all stored values and arguments" unwind=6 mem=6 reclimit="mahf::state::(registry::)?StateRegistry::<.*>::find(_mut)?::<.*>=5"
h!(h_c01_reads_d3_100, 3, [true, false, false], 0, 6);
// @h tier=thorough bound="depth 3, A present per scope (bottom..top) 100, B in the bottom scope; op insert; all stored values and arguments" unwind=6 mem=6 reclimit="mahf::state::(registry::)?StateRegistry::<.*>::find(_mut)?::<.*>=5"
h!(h_c01_insert_d3_100, 3, [true, false, false], 1, 6);
// @h tier=quick bound="depth 3, A present per scope (bottom..top) 100, B in the bottom scope; op remove; all stored values and arguments" unwind=6 mem=6 reclimit="mahf::state::(registry::)?StateRegistry::<.*>::find(_mut)?::<.*>=5"
h!(h_c01_remove_d3_100, 3, [true, false, false], 2, 6);
// @h tier=thorough bound="depth 3, A present per scope (bottom..top) 100, B in the bottom scope; op set_value; all stored values and arguments" unwind=6 mem=6 reclimit="mahf::state::(registry::)?StateRegistry::<.*>::find(_mut)?::<.*>=5"
h!(h_c01_set_value_d3_100, 3, [true, false, false], 3, 6);
// @h tier=quick bound="depth 3, A present per scope (bottom..top) 100, B in the bottom scope; op get_mut; all stored values and arguments" unwind=6 mem=6 reclimit="mahf::state::(registry::)?StateRegistry::<.*>::find(_mut)?::<.*>=5"
h!(h_c01_get_mut_d3_100, 3, [true, false, false], 4, 6);
// @h tier=quick bound="depth 3, A present per scope (bottom..top) 100, B in the bottom scope; op and_modify_or_insert; all stored values and arguments" unwind=6 mem=6 reclimit="mahf::state::(registry::)?StateRegistry::<.*>::find(_mut)?::<.*>=5"
h!(h_c01_and_modify_or_insert_d3_100, 3, [true, false, false], 5, 6);
// @h tier=thorough bound="depth 3, A present per scope (bottom..top) 100, B in the bottom scope; op or_insert_with; all stored values and arguments" unwind=6 mem=6 reclimit="mahf::state::(registry::)?StateRegistry::<.*>::find(_mut)?::<.*>=5"
h!(h_c01_or_insert_with_d3_100, 3, [true, false, false], 6, 6);
// @h tier=thorough bound="depth 3, A present per scope (bottom..top) 100, B in the bottom scope; op or_default; all stored values and arguments" unwind=6 mem=6 reclimit="mahf::state::(registry::)?StateRegistry::<.*>::find(_mut)?::<.*>=5"
h!(h_c01_or_default_d3_100, 3, [true, false, false], 7, 6);
// @h tier=quick bound="depth 3, A present per scope (bottom..top) 100, B in the bottom scope; op entry_insert; all stored values and arguments" unwind=6 mem=6 reclimit="mahf::state::(registry::)?StateRegistry::<.*>::find(_mut)?::<.*>=5"
h!(h_c01_entry_insert_d3_100, 3, [true, false, false], 8, 6);
// @h tier=thorough bound="depth 3, A present per scope (bottom..top) 100, B in the bottom scope; op entry_remove; all stored values and arguments" unwind=6 mem=6 reclimit="mahf::state::(registry::)?StateRegistry::<.*>::find(_mut)?::<.*>=5"
h!(h_c01_entry_remove_d3_100, 3, [true, false, false], 9, 6);
// @h tier=thorough bound="depth 3, A present per scope (bottom..top) 100, B in the bottom scope; op entry_access; all stored values and arguments" unwind=6 mem=6 reclimit="mahf::state::(registry::)?StateRegistry::<.*>::find(_mut)?::<.*>=5"
h!(h_c01_entry_access_d3_100, 3, [true, false, false], 10, 6);
// @h tier=thorough bound="depth 3, A present per scope (bottom..top) 100, B in the bottom scope; op push_scope; all stored values and arguments" unwind=6 mem=6 reclimit="mahf::state::(registry::)?StateRegistry::<.*>::find(_mut)?::<.*>=5"
h!(h_c01_push_scope_d3_100, 3, [true, false, false], 11, 6);
// @h tier=thorough bound="depth 3, A present per scope (bottom..top) 100, B in the bottom scope; op and_modify_value; all stored values and arguments" unwind=6 mem=6 reclimit="mahf::state::(registry::)?StateRegistry::<.*>::find(_mut)?::<.*>=5"
h!(h_c01_and_modify_value_d3_100, 3, [true, false, false], 12, 6);
// @h tier=thorough bound="depth 3, A present per scope (bottom..top) 101, B in the bottom scope; op reads; all stored values and arguments" unwind=6 mem=6 reclimit="mahf::state::(registry::)?StateRegistry::<.*>::find(_mut)?::<.*>=5"
h!(h_c01_reads_d3_101, 3, [true, false, true], 0, 6);
// @h tier=thorough bound="depth 3, A present per scope (bottom..top) 101, B in the bottom scope; op insert; all stored values and arguments" unwind=6 mem=6 reclimit="mahf::state::(registry::)?StateRegistry::<.*>::find(_mut)?::<.*>=5"
h!(h_c01_insert_d3_101, 3, [true, false, true], 1, 6);
// @h tier=thorough bound="depth 3, A present per scope (bottom..top) 101, B in the bottom scope; op remove; all stored values and arguments" unwind=6 mem=6 reclimit="mahf::state::(registry::)?StateRegistry::<.*>::find(_mut)?::<.*>=5"
h!(h_c01_remove_d3_101, 3, [true, false, true], 2, 6);
// @h tier=thorough bound="depth 3, A present per scope (bottom..top) 101, B in the bottom scope; op set_value; all stored values and arguments" unwind=6 mem=6 reclimit="mahf::state::(registry::)?StateRegistry::<.*>::find(_mut)?::<.*>=5"
h!(h_c01_set_value_d3_101, 3, [true, false, true], 3, 6);
// @h tier=thorough bound="depth 3, A present per scope (bottom..top) 101, B in the bottom scope; op get_mut; all stored values and arguments" unwind=6 mem=6 reclimit="mahf::state::(registry::)?StateRegistry::<.*>::find(_mut)?::<.*>=5"
h!(h_c01_get_mut_d3_101, 3, [true, false, true], 4, 6);
// @h tier=thorough bound="depth 3, A present per scope (bottom..top) 101, B in the bottom scope; op and_modify_or_insert; all stored values and arguments" unwind=6 mem=6 reclimit="mahf::state::(registry::)?StateRegistry::<.*>::find(_mut)?::<.*>=5"
h!(h_c01_and_modify_or_insert_d3_101, 3, [true, false, true], 5, 6);
// @h tier=thorough bound="depth 3, A present per scope (bottom..top) 101, B in the bottom scope; op or_insert_with; all stored values and arguments" unwind=6 mem=6 reclimit="mahf::state::(registry::)?StateRegistry::<.*>::find(_mut)?::<.*>=5"
h!(h_c01_or_insert_with_d3_101, 3, [true, false, true], 6, 6);
// @h tier=thorough bound="depth 3, A present per scope (bottom..top) 101, B in the bottom scope; op or_default; all stored values and arguments" unwind=6 mem=6 reclimit="mahf::state::(registry::)?StateRegistry::<.*>::find(_mut)?::<.*>=5"
h!(h_c01_or_default_d3_101, 3, [true, false, true], 7, 6);
// @h tier=thorough bound="depth 3, A present per scope (bottom..top) 101, B in the bottom scope; op entry_insert; all stored values and arguments" unwind=6 mem=6 reclimit="mahf::state::(registry::)?StateRegistry::<.*>::find(_mut)?::<.*>=5"
h!(h_c01_entry_insert_d3_101, 3, [true, false, true], 8, 6);
// @h tier=thorough bound="depth 3, A present per scope (bottom..top) 101, B in the bottom scope; op entry_remove; all stored values and arguments" unwind=6 mem=6 reclimit="mahf::state::(registry::)?StateRegistry::<.*>::find(_mut)?::<.*>=5"
h!(h_c01_entry_remove_d3_101, 3, [true, false, true], 9, 6);
// @h tier=thorough bound="depth 3, A present per scope (bottom..top) 101, B in the bottom scope; op entry_access; all stored values and arguments" unwind=6 mem=6 reclimit="mahf::state::(registry::)?StateRegistry::<.*>::find(_mut)?::<.*>=5"
h!(h_c01_entry_access_d3_101, 3, [true, false, true], 10, 6);
// @h tier=thorough bound="depth 3, A present per scope (bottom..top) 101, B in the bottom scope; op push_scope; all stored values and arguments" unwind=6 mem=6 reclimit="mahf::state::(registry::)?StateRegistry::<.*>::find(_mut)?::<.*>=5"
h!(h_c01_push_scope_d3_101, 3, [true, false, true], 11, 6);
// @h tier=thorough bound="depth 3, A present per scope (bottom..top) 101, B in the bottom scope; op and_modify_value; all stored values and arguments" unwind=6 mem=6 reclimit="mahf::state::(registry::)?StateRegistry::<.*>::find(_mut)?::<.*>=5"
h!(h_c01_and_modify_value_d3_101, 3, [true, false, true], 12, 6);
// @h tier=thorough bound="depth 3, A present per scope (bottom..top) 110, B in the bottom scope; op reads; all stored values and arguments" unwind=6 mem=6 reclimit="mahf::state::(registry::)?StateRegistry::<.*>::find(_mut)?::<.*>=5"
h!(h_c01_reads_d3_110, 3, [true, true, false], 0, 6);
// @h tier=thorough bound="depth 3, A present per scope (bottom..top) 110, B in the bottom scope; op insert; all stored values and arguments" unwind=6 mem=6 reclimit="mahf::state::(registry::)?StateRegistry::<.*>::find(_mut)?::<.*>=5"
h!(h_c01_insert_d3_110, 3, [true, true, false], 1, 6);
// @h tier=thorough bound="depth 3, A present per scope (bottom..top) 110, B in the bottom scope; op remove; all stored values and arguments" unwind=6 mem=6 reclimit="mahf::state::(registry::)?StateRegistry::<.*>::find(_mut)?::<.*>=5"
h!(h_c01_remove_d3_110, 3, [true, true, false], 2, 6);
// @h tier=thorough bound="depth 3, A present per scope (bottom..top) 110, B in the bottom scope; op set_value; all stored values and arguments" unwind=6 mem=6 reclimit="mahf::state::(registry::)?StateRegistry::<.*>::find(_mut)?::<.*>=5"
h!(h_c01_set_value_d3_110, 3, [true, true, false], 3, 6);
// @h tier=thorough bound="depth 3, A present per scope (bottom..top) 110, B in the bottom scope; op get_mut; all stored values and arguments" unwind=6 mem=6 reclimit="mahf::state::(registry::)?StateRegistry::<.*>::find(_mut)?::<.*>=5"
h!(h_c01_get_mut_d3_110, 3, [true, true, false], 4, 6);
// @h tier=thorough bound="depth 3, A present per scope (bottom..top) 110, B in the bottom scope; op and_modify_or_insert; all stored values and arguments" unwind=6 mem=6 reclimit="mahf::state::(registry::)?StateRegistry::<.*>::find(_mut)?::<.*>=5"
h!(h_c01_and_modify_or_insert_d3_110, 3, [true, true, false], 5, 6);
// @h tier=thorough bound="depth 3, A present per scope (bottom..top) 110, B in the bottom scope; op or_insert_with; all stored values and arguments" unwind=6 mem=6 reclimit="mahf::state::(registry::)?StateRegistry::<.*>::find(_mut)?::<.*>=5"
h!(h_c01_or_insert_with_d3_110, 3, [true, true, false], 6, 6);
// @h tier=thorough bound="depth 3, A present per scope (bottom..top) 110, B in the bottom scope; op or_default; all stored values and arguments" unwind=6 mem=6 reclimit="mahf::state::(registry::)?StateRegistry::<.*>::find(_mut)?::<.*>=5"
h!(h_c01_or_default_d3_110, 3, [true, true, false], 7, 6);
// @h tier=thorough bound="depth 3, A present per scope (bottom..top) 110, B in the bottom scope; op entry_insert; all stored values and arguments" unwind=6 mem=6 reclimit="mahf::state::(registry::)?StateRegistry::<.*>::find(_mut)?::<.*>=5"
h!(h_c01_entry_insert_d3_110, 3, [true, true, false], 8, 6);
// @h tier=thorough bound="depth 3, A present per scope (bottom..top) 110, B in the bottom scope; op entry_remove; all stored values and arguments" unwind=6 mem=6 reclimit="mahf::state::(registry::)?StateRegistry::<.*>::find(_mut)?::<.*>=5"
h!(h_c01_entry_remove_d3_110, 3, [true, true, false], 9, 6);
// @h tier=thorough bound="depth 3, A present per scope (bottom..top) 110, B in the bottom scope; op entry_access; all stored values and arguments" unwind=6 mem=6 reclimit="mahf::state::(registry::)?StateRegistry::<.*>::find(_mut)?::<.*>=5"
h!(h_c01_entry_access_d3_110, 3, [true, true, false], 10, 6);
// @h tier=thorough bound="depth 3, A present per scope (bottom..top) 110, B in the bottom scope; op push_scope; all stored values and arguments" unwind=6 mem=6 reclimit="mahf::state::(registry::)?StateRegistry::<.*>::find(_mut)?::<.*>=5"
h!(h_c01_push_scope_d3_110, 3, [true, true, false], 11, 6);
// @h tier=thorough bound="depth 3, A present per scope (bottom..top) 110, B in the bottom scope; op and_modify_value; all stored values and arguments" unwind=6 mem=6 reclimit="mahf::state::(registry::)?StateRegistry::<.*>::find(_mut)?::<.*>=5"
h!(h_c01_and_modify_value_d3_110, 3, [true, true, false], 12, 6);
// @h tier=thorough bound="depth 3, A present per scope (bottom..top) 111, B in the bottom scope; op reads; all stored values and arguments" unwind=6 mem=6 reclimit="mahf::state::(registry::)?StateRegistry::<.*>::find(_mut)?::<.*>=5"
h!(h_c01_reads_d3_111, 3, [true, true, true], 0, 6);
// @h tier=thorough bound="depth 3, A present per scope (bottom..top) 111, B in the bottom scope; op insert; all stored values and arguments" unwind=6 mem=6 reclimit="mahf::state::(registry::)?StateRegistry::<.*>::find(_mut)?::<.*>=5"
h!(h_c01_insert_d3_111, 3, [true, true, true], 1, 6);
// @h tier=quick bound="depth 3, A present per scope (bottom..top) 111, B in the bottom scope; op remove; all stored values and arguments" unwind=6 mem=6 reclimit="mahf::state::(registry::)?StateRegistry::<.*>::find(_mut)?::<.*>=5"
h!(h_c01_remove_d3_111, 3, [true, true, true], 2, 6);
// @h tier=thorough bound="depth 3, A present per scope (bottom..top) 111, B in the bottom scope; op set_value; all stored values and arguments" unwind=6 mem=6 reclimit="mahf::state::(registry::)?StateRegistry::<.*>::find(_mut)?::<.*>=5"
h!(h_c01_set_value_d3_111, 3, [true, true, true], 3, 6);
// @h tier=quick bound="depth 3, A present per scope (bottom..top) 111, B in the bottom scope; op get_mut; all stored values and arguments" unwind=6 mem=6 reclimit="mahf::state::(registry::)?StateRegistry::<.*>::find(_mut)?::<.*>=5"
h!(h_c01_get_mut_d3_111, 3, [true, true, true], 4, 6);
// @h tier=quick bound="depth 3, A present per scope (bottom..top) 111, B in the bottom scope; op and_modify_or_insert; all stored values and arguments" unwind=6 mem=6 reclimit="mahf::state::(registry::)?StateRegistry::<.*>::find(_mut)?::<.*>=5"
h!(h_c01_and_modify_or_insert_d3_111, 3, [true, true, true], 5, 6);
// @h tier=thorough bound="depth 3, A present per scope (bottom..top) 111, B in the bottom scope; op or_insert_with; all stored values and arguments" unwind=6 mem=6 reclimit="mahf::state::(registry::)?StateRegistry::<.*>::find(_mut)?::<.*>=5"
h!(h_c01_or_insert_with_d3_111, 3, [true, true, true], 6, 6);
// @h tier=thorough bound="depth 3, A present per scope (bottom..top) 111, B in the bottom scope; op or_default; all stored values and arguments" unwind=6 mem=6 reclimit="mahf::state::(registry::)?StateRegistry::<.*>::find(_mut)?::<.*>=5"
h!(h_c01_or_default_d3_111, 3, [true, true, true], 7, 6);
// @h tier=quick bound="depth 3, A present per scope (bottom..top) 111, B in the bottom scope; op entry_insert; all stored values and arguments" unwind=6 mem=6 reclimit="mahf::state::(registry::)?StateRegistry::<.*>::find(_mut)?::<.*>=5"
h!(h_c01_entry_insert_d3_111, 3, [true, true, true], 8, 6);
// @h tier=thorough bound="depth 3, A present per scope (bottom..top) 111, B in the bottom scope; op entry_remove; all stored values and arguments" unwind=6 mem=6 reclimit="mahf::state::(registry::)?StateRegistry::<.*>::find(_mut)?::<.*>=5"
h!(h_c01_entry_remove_d3_111, 3, [true, true, true], 9, 6);
// @h tier=thorough bound="depth 3, A present per scope (bottom..top) 111, B in the bottom scope; op entry_access; all stored values and arguments" unwind=6 mem=6 reclimit="mahf::state::(registry::)?StateRegistry::<.*>::find(_mut)?::<.*>=5"
h!(h_c01_entry_access_d3_111, 3, [true, true, true], 10, 6);
// @h tier=thorough bound="depth 3, A present per scope (bottom..top) 111, B in the bottom scope; op push_scope; all stored values and arguments" unwind=6 mem=6 reclimit="mahf::state::(registry::)?StateRegistry::<.*>::find(_mut)?::<.*>=5"
h!(h_c01_push_scope_d3_111, 3, [true, true, true], 11, 6);
// @h tier=thorough bound="depth 3, A present per scope (bottom..top) 111, B in the bottom scope; op and_modify_value; all stored values and arguments" unwind=6 mem=6 reclimit="mahf::state::(registry::)?StateRegistry::<.*>::find(_mut)?::<.*>=5"
h!(h_c01_and_modify_value_d3_111, 3, [true, true, true], 12, 6);
