//! C14 — initialisation and boundary repair keep every coordinate inside the domain.
//! Code: mahf::components::boundary::{Saturation,Toroidal,Mirror,CompleteOneTailedNormalCorrection}::constrain (called directly), boundary_constraint (driver)
//! Code: mahf::components::initialization::{RandomSpread,RandomPermutation,RandomBitstring,Empty}, functional::{random_spread,random_permutation,random_bitstring}, initialization (driver)
//! Out: coordinates further than K domain widths from the domain (K = 2 quick, 8 thorough; the reflection loop's trip count grows linearly with that distance); dimension > 2; population sizes > 2
//! Out: the values produced by rand_distr's normal sampler (ln/exp are over-approximated by the engine): only containment on return and the draw-free cases are decided for the one-tailed correction
//! Reclimit: mahf::state::(registry::)?StateRegistry::<.*>::find(_mut)?::<.*>=2
//! Assume: termination = the loop's unwinding assertion passes with unwind = K+3 (a failed unwinding assertion is replayed natively under a watchdog; a hang is the violation)
use mahf::components::boundary::{BoundaryConstraint, CompleteOneTailedNormalCorrection, Mirror, Saturation, Toroidal};
use mahf::components::initialization::{Empty, Initialization, RandomBitstring, RandomPermutation, RandomSpread};
use mahf::components::Component;
use mahf::state::common::Populations;
use mahf::{Individual, State};

use crate::problems::{obj, BitP, PermP, RealP};
use crate::rng::{draws, sym_random};
use crate::sym;

macro_rules! h {
    ($name:ident, $uw:expr, $body:expr) => {
        #[cfg_attr(kani, kani::proof)]
        #[cfg_attr(kani, kani::unwind($uw))]
        pub fn $name() {
            $body;
            vcover!(true, "reached");
        }
    };
}

const DOMS: [(f64, f64); 4] = [(-1.0, 2.0), (0.0, 1.0), (-5.12, 5.12), (0.001, 1000.0)];

fn within_k(x: f64, a: f64, b: f64, k: f64) -> bool {
    let w = b - a;
    x >= a - k * w && x <= b + k * w
}

// ---- Saturation: symbolic domain ---------------------------------------------------------------------

fn saturation() {
    let (a, b) = (sym::finite_f64(), sym::finite_f64());
    sym::assume(a < b);
    let p = RealP::d1(a, b);
    let x = sym::finite_f64();
    let mut s = vec![x];
    let mut rng = sym_random(0);
    BoundaryConstraint::<RealP>::constrain(&Saturation::from_params(), &mut s, &p, &mut rng);
    let r = s[0];
    assert!(s.len() == 1, "dimension kept");
    assert!(r >= a && r <= b, "Saturation: result within the domain bounds");
    if x >= a && x <= b {
        assert!(r.to_bits() == x.to_bits(), "Saturation: a coordinate already inside is unchanged");
    }
    BoundaryConstraint::<RealP>::constrain(&Saturation::from_params(), &mut s, &p, &mut rng);
    assert!(s[0].to_bits() == r.to_bits(), "Saturation: idempotent");
    vcover!(x < a, "below");
    vcover!(x > b, "above");
    std::mem::forget((s, p, rng));
}
// @h tier=quick bound="dimension 1; every finite domain a<b, every finite coordinate" unwind=4
h!(h_c14_saturation_any_domain, 4, saturation());

/// @h tier=quick bound="dimension 2; domains [-1,2]x[0,1]; every finite coordinate pair" unwind=5
#[cfg_attr(kani, kani::proof)]
#[cfg_attr(kani, kani::unwind(5))]
pub fn h_c14_saturation_dim2() {
    let p = RealP::d2(-1.0, 2.0, 0.0, 1.0);
    let (x, y) = (sym::finite_f64(), sym::finite_f64());
    let mut s = vec![x, y];
    let mut rng = sym_random(0);
    BoundaryConstraint::<RealP>::constrain(&Saturation::from_params(), &mut s, &p, &mut rng);
    assert!(s.len() == 2, "dimension kept");
    assert!(s[0] >= -1.0 && s[0] <= 2.0 && s[1] >= 0.0 && s[1] <= 1.0, "Saturation: each coordinate within its own bounds");
    if y >= 0.0 && y <= 1.0 {
        assert!(s[1].to_bits() == y.to_bits(), "Saturation: inside coordinate unchanged (second dimension)");
    }
    vcover!(x > 2.0 && y < 0.0, "both outside");
    std::mem::forget((s, p, rng));
}

// ---- Toroidal / Mirror: concrete domains, symbolic coordinate within K widths ----------------------------

fn repair_generic<B: BoundaryConstraint<RealP>>(op: &B, dom: usize, k: f64, exact_bounds: bool) {
    let (a, b) = DOMS[dom];
    let p = RealP::d1(a, b);
    let x = sym::finite_f64();
    sym::assume(within_k(x, a, b, k));
    let mut s = vec![x];
    let mut rng = sym_random(0);
    op.constrain(&mut s, &p, &mut rng);
    let r = s[0];
    let tol = if exact_bounds { 0.0 } else { (b - a) * 1e-12 };
    assert!(r >= a - tol && r <= b + tol, "repair: result within the domain bounds");
    assert!(r.is_finite(), "repair: finite in, finite out");
    if x >= a && x <= b {
        assert!(r.to_bits() == x.to_bits(), "repair: a coordinate already inside is unchanged");
    }
    op.constrain(&mut s, &p, &mut rng);
    assert!(s[0].to_bits() == r.to_bits(), "repair: idempotent");
    vcover!(x < a, "below");
    vcover!(x > b, "above");
    vcover!(x == b, "exactly on the upper bound");
    std::mem::forget((s, p, rng));
}
// @h tier=quick bound="domain [-1,2], every finite x within 2 widths" unwind=5 cost=2
h!(h_c14_toroidal_d0, 5, repair_generic(&Toroidal::from_params(), 0, 2.0, false));
// @h tier=quick bound="domain [0,1], every finite x within 2 widths" unwind=5 cost=2
h!(h_c14_toroidal_d1, 5, repair_generic(&Toroidal::from_params(), 1, 2.0, false));
// @h tier=thorough bound="domain [-5.12,5.12], every finite x within 8 widths" unwind=5 cost=3
h!(h_c14_toroidal_d2_k8, 5, repair_generic(&Toroidal::from_params(), 2, 8.0, false));
// @h tier=thorough bound="domain [0.001,1000], every finite x within 8 widths" unwind=5 cost=3
h!(h_c14_toroidal_d3_k8, 5, repair_generic(&Toroidal::from_params(), 3, 8.0, false));

// @h tier=quick bound="domain [-1,2], every finite x within 2 widths; loop bound 5 = termination" unwind=5 cost=2 unwind_is_violation=1
h!(h_c14_mirror_d0, 5, repair_generic(&Mirror::from_params(), 0, 2.0, true));
// @h tier=quick bound="domain [0,1], every finite x within 2 widths; loop bound 5 = termination" unwind=5 cost=2 unwind_is_violation=1
h!(h_c14_mirror_d1, 5, repair_generic(&Mirror::from_params(), 1, 2.0, true));
// @h tier=thorough bound="domain [-5.12,5.12], every finite x within 8 widths; loop bound 11 = termination" unwind=11 cost=4 unwind_is_violation=1
h!(h_c14_mirror_d2_k8, 11, repair_generic(&Mirror::from_params(), 2, 8.0, true));
// @h tier=thorough bound="domain [0.001,1000], every finite x within 8 widths; loop bound 11 = termination" unwind=11 cost=4 unwind_is_violation=1
h!(h_c14_mirror_d3_k8, 11, repair_generic(&Mirror::from_params(), 3, 8.0, true));

/// Two dimensions of *different* width and offset: each coordinate is repaired against its own range
/// (a repair that hoists the width or the bounds of one dimension out of the per-coordinate loop is
/// invisible on hypercubes and on one-dimensional domains).
fn repair_dim2<B: BoundaryConstraint<RealP>>(op: &B, exact_bounds: bool) {
    let ((a0, b0), (a1, b1)) = ((0.0, 10.0), (-3.0, -1.0));
    let p = RealP::d2(a0, b0, a1, b1);
    let (x, y) = (sym::finite_f64(), sym::finite_f64());
    sym::assume(within_k(x, a0, b0, 1.0) && within_k(y, a1, b1, 2.0));
    let mut s = vec![x, y];
    let mut rng = sym_random(0);
    op.constrain(&mut s, &p, &mut rng);
    let (r0, r1) = (s[0], s[1]);
    let (t0, t1) = if exact_bounds { (0.0, 0.0) } else { ((b0 - a0) * 1e-12, (b1 - a1) * 1e-12) };
    assert!(s.len() == 2, "dimension kept");
    assert!(r0 >= a0 - t0 && r0 <= b0 + t0, "repair: first coordinate within its own bounds");
    assert!(r1 >= a1 - t1 && r1 <= b1 + t1, "repair: second coordinate within its own bounds");
    if x >= a0 && x <= b0 {
        assert!(r0.to_bits() == x.to_bits(), "repair: inside coordinate unchanged (first dimension)");
    }
    if y >= a1 && y <= b1 {
        assert!(r1.to_bits() == y.to_bits(), "repair: inside coordinate unchanged (second dimension)");
    }
    op.constrain(&mut s, &p, &mut rng);
    assert!(s[0].to_bits() == r0.to_bits() && s[1].to_bits() == r1.to_bits(), "repair: idempotent");
    vcover!(x >= a0 && x <= b0 && y < a1, "first inside, second below");
    vcover!(x > b0 && y > b1, "both above");
    std::mem::forget((s, p, rng));
}
// @h tier=quick bound="domains [0,10]x[-3,-1] (different widths); every finite pair with x within 1 width, y within 2 widths" unwind=5 cost=3
h!(h_c14_toroidal_dim2_mixed, 5, repair_dim2(&Toroidal::from_params(), false));
// @h tier=quick bound="domains [0,10]x[-3,-1] (different widths); every finite pair with x within 1 width, y within 2 widths; loop bound 5 = termination" unwind=5 cost=3 unwind_is_violation=1
h!(h_c14_mirror_dim2_mixed, 5, repair_dim2(&Mirror::from_params(), true));

/// One-tailed normal correction, draw-free cases: a coordinate inside the closed domain needs no
/// sample, is unchanged, and the operator returns.
fn one_tailed_inside(dom: usize) {
    let (a, b) = DOMS[dom];
    let p = RealP::d1(a, b);
    let x = sym::finite_f64();
    sym::assume(x >= a && x <= b);
    let mut s = vec![x];
    let mut rng = sym_random(0);
    BoundaryConstraint::<RealP>::constrain(&CompleteOneTailedNormalCorrection::from_params(), &mut s, &p, &mut rng);
    assert!(s[0].to_bits() == x.to_bits(), "one-tailed correction: a coordinate already inside is unchanged");
    assert!(draws() == 0, "one-tailed correction: no sample needed inside the domain");
    vcover!(x == b, "exactly on the upper bound");
    vcover!(x == a, "exactly on the lower bound");
    std::mem::forget((s, p, rng));
}
// @h tier=quick bound="domain [-1,2], every x in [a,b]; loop bound 4 = termination" unwind=4 unwind_is_violation=1
h!(h_c14_onetailed_inside_d0, 4, one_tailed_inside(0));
// @h tier=thorough bound="domain [0,1], every x in [a,b]; loop bound 4 = termination" unwind=4 unwind_is_violation=1
h!(h_c14_onetailed_inside_d1, 4, one_tailed_inside(1));

// ---- the driver -------------------------------------------------------------------------------------------------

/// @h tier=thorough bound="driver: population of 2 one-dimensional individuals, domain [-1,2], Saturation" unwind=6 cost=8 mem=20 timeout=1500
#[cfg_attr(kani, kani::proof)]
#[cfg_attr(kani, kani::unwind(6))]
pub fn h_c14_driver_saturation() {
    let p = RealP::d1(-1.0, 2.0);
    let (x, y) = (sym::finite_f64(), sym::finite_f64());
    let o = sym::legal_f64();
    let mut pops = Populations::<RealP>::new();
    pops.push(vec![Individual::new(vec![x], obj(o)), Individual::new_unevaluated(vec![y])]);
    let mut s: State<RealP> = State::new();
    s.insert(sym_random(0));
    s.insert(pops);
    let r = Component::<RealP>::execute(&Saturation::from_params(), &p, &mut s);
    assert!(r.is_ok(), "driver succeeds");
    {
        let ps = s.populations();
        assert!(ps.len() == 1 && ps.current().len() == 2, "driver: same stack, same population size");
        let c = ps.current();
        assert!(c[0].solution().len() == 1 && c[1].solution().len() == 1, "dimension kept");
        let (rx, ry) = (c[0].solution()[0], c[1].solution()[0]);
        assert!(rx >= -1.0 && rx <= 2.0 && ry >= -1.0 && ry <= 2.0, "driver: every individual repaired");
        assert!((x >= -1.0 && x <= 2.0) || !c[0].is_evaluated(), "driver: an individual whose solution was repaired is unevaluated");
    }
    vcover!(x > 2.0 && y < -1.0, "both outside");
    std::mem::forget((s, p));
}

/// @h tier=thorough bound="driver: population of 1 one-dimensional individual, domain [-1,2], Saturation" unwind=5 cost=8 mem=28 timeout=1800
#[cfg_attr(kani, kani::proof)]
#[cfg_attr(kani, kani::unwind(5))]
pub fn h_c14_driver_saturation_1() {
    let p = RealP::d1(-1.0, 2.0);
    let x = sym::finite_f64();
    let o = sym::legal_f64();
    let mut pops = Populations::<RealP>::new();
    pops.push(vec![Individual::new(vec![x], obj(o))]);
    let mut s: State<RealP> = State::new();
    s.insert(sym_random(0));
    s.insert(pops);
    let r = Component::<RealP>::execute(&Saturation::from_params(), &p, &mut s);
    assert!(r.is_ok(), "driver succeeds");
    {
        let ps = s.populations();
        assert!(ps.len() == 1 && ps.current().len() == 1, "driver: same stack, same population size");
        let c = ps.current();
        assert!(c[0].solution().len() == 1, "dimension kept");
        let rx = c[0].solution()[0];
        assert!(rx >= -1.0 && rx <= 2.0, "driver: the individual is repaired");
        assert!((x >= -1.0 && x <= 2.0) || !c[0].is_evaluated(), "driver: an individual whose solution was repaired is unevaluated");
    }
    vcover!(x > 2.0, "outside");
    std::mem::forget((s, p));
}

/// One-tailed normal correction with a coordinate below the domain: whatever the sampler
/// returns, the operator only returns a coordinate inside the domain.
/// @h tier=thorough bound="domain [-1,2], x in [a-2w,a); all draw sequences within 4 draws on which it returns" unwind=6 cost=8 mem=28 timeout=1800
#[cfg_attr(kani, kani::proof)]
#[cfg_attr(kani, kani::unwind(6))]
pub fn h_c14_onetailed_sample_d0() {
    let (a, b) = DOMS[0];
    let p = RealP::d1(a, b);
    let x = sym::finite_f64();
    sym::assume(x < a && x >= a - 2.0 * (b - a));
    let mut s = vec![x];
    let mut rng = sym_random(4);
    BoundaryConstraint::<RealP>::constrain(&CompleteOneTailedNormalCorrection::from_params(), &mut s, &p, &mut rng);
    assert!(s[0] >= a && s[0] <= b, "one-tailed correction: result within the domain bounds");
    assert!(draws() >= 1, "one-tailed correction: a coordinate outside is re-sampled");
    vcover!(true, "returns");
    std::mem::forget((s, p, rng));
}

// ---- initialisation ------------------------------------------------------------------------------------------------

fn random_spread(n: u32, dims: usize) {
    let p = if dims == 1 { RealP::d1(-1.0, 2.0) } else { RealP::d2(-1.0, 2.0, 10.0, 20.0) };
    let mut rng = sym_random(n * dims as u32 + 2);
    let v = Initialization::<RealP>::initialize(&RandomSpread::from_params(n), &p, &mut rng);
    assert!(v.len() == n as usize, "RandomSpread creates the requested number of solutions");
    let mut i = 0;
    while i < v.len() {
        assert!(v[i].len() == dims, "RandomSpread: problem dimension");
        assert!(v[i][0] >= -1.0 && v[i][0] < 2.0, "RandomSpread: first coordinate inside its domain");
        if dims == 2 {
            assert!(v[i][1] >= 10.0 && v[i][1] < 20.0, "RandomSpread: second coordinate inside its own domain");
        }
        i += 1;
    }
    std::mem::forget((v, p, rng));
}
/// Heterogeneous domain whose first and last dimension coincide: every coordinate is drawn from
/// its own range.
/// @h tier=quick bound="1 individual, 3 dimensions [-1,2],[10,20],[-1,2]; all draw sequences within 5 draws" unwind=7 cost=4
#[cfg_attr(kani, kani::proof)]
#[cfg_attr(kani, kani::unwind(7))]
pub fn h_c14_spread_1x3_mixed() {
    let p = RealP::d3([(-1.0, 2.0), (10.0, 20.0), (-1.0, 2.0)]);
    let mut rng = sym_random(5);
    let v = Initialization::<RealP>::initialize(&RandomSpread::from_params(1), &p, &mut rng);
    assert!(v.len() == 1 && v[0].len() == 3, "RandomSpread: one solution of the problem dimension");
    assert!(v[0][0] >= -1.0 && v[0][0] < 2.0, "RandomSpread: first coordinate inside its domain");
    assert!(v[0][1] >= 10.0 && v[0][1] < 20.0, "RandomSpread: middle coordinate inside its own domain");
    assert!(v[0][2] >= -1.0 && v[0][2] < 2.0, "RandomSpread: last coordinate inside its domain");
    vcover!(true, "reached");
    std::mem::forget((v, p, rng));
}
// @h tier=quick bound="0 individuals" unwind=4
h!(h_c14_spread_0, 4, random_spread(0, 1));
// @h tier=quick bound="1 individual, 2 dimensions with different domains; all draw sequences within 4 draws" unwind=6 cost=3
h!(h_c14_spread_1x2, 6, random_spread(1, 2));
// @h tier=quick bound="2 individuals, 1 dimension; all draw sequences within 4 draws" unwind=6 cost=3
h!(h_c14_spread_2x1, 6, random_spread(2, 1));
// @h tier=thorough bound="2 individuals, 2 dimensions; all draw sequences within 6 draws" unwind=8 cost=6 timeout=1500 mem=12
h!(h_c14_spread_2x2, 8, random_spread(2, 2));

fn random_permutation(n: u32, d: usize) {
    let p = PermP(d);
    let mut rng = sym_random(n * d as u32 + 2);
    let v = Initialization::<PermP>::initialize(&RandomPermutation::from_params(n), &p, &mut rng);
    assert!(v.len() == n as usize, "RandomPermutation creates the requested number of solutions");
    let mut i = 0;
    while i < v.len() {
        assert!(v[i].len() == d, "RandomPermutation: problem dimension");
        let mut seen = [false; 5];
        let mut j = 0;
        while j < d {
            let e = v[i][j];
            assert!(e < d && !seen[e], "RandomPermutation: a permutation of all positions");
            seen[e] = true;
            j += 1;
        }
        i += 1;
    }
    std::mem::forget((v, p, rng));
}
// @h tier=quick bound="1 permutation of 3 positions; all draw sequences within 5 draws" unwind=7 cost=3
h!(h_c14_perm_1x3, 7, random_permutation(1, 3));
// @h tier=quick bound="2 permutations of 2 positions" unwind=7 cost=3
h!(h_c14_perm_2x2, 7, random_permutation(2, 2));
// @h tier=quick bound="1 permutation of 0 positions" unwind=4
h!(h_c14_perm_1x0, 4, random_permutation(1, 0));
// @h tier=thorough bound="1 permutation of 4 positions" unwind=8 cost=5 timeout=1500
h!(h_c14_perm_1x4, 8, random_permutation(1, 4));

fn random_bitstring(n: u32, d: usize) {
    let p = BitP(d);
    let mut rng = sym_random(n * d as u32 + 2);
    let v = Initialization::<BitP>::initialize(&RandomBitstring::from_params(n, 0.5), &p, &mut rng);
    assert!(v.len() == n as usize, "RandomBitstring creates the requested number of solutions");
    let mut i = 0;
    while i < v.len() {
        assert!(v[i].len() == d, "RandomBitstring: problem dimension");
        i += 1;
    }
    if n > 0 && d > 0 {
        vcover!(v[0][0], "a one bit");
        vcover!(!v[0][0], "a zero bit");
    }
    std::mem::forget((v, p, rng));
}
// @h tier=quick bound="2 bitstrings of length 2; all draw sequences within 6 draws" unwind=8 cost=3
h!(h_c14_bits_2x2, 8, random_bitstring(2, 2));
// @h tier=quick bound="1 bitstring of length 0" unwind=4 dead="a one bit;a zero bit"
h!(h_c14_bits_1x0, 4, random_bitstring(1, 0));

/// @h tier=quick bound="driver: RandomPermutation(2) of 2 positions pushed onto a stack of height 1" unwind=7 cost=4 mem=10
#[cfg_attr(kani, kani::proof)]
#[cfg_attr(kani, kani::unwind(7))]
pub fn h_c14_driver_init() {
    let p = PermP(2);
    let mut pops = Populations::<PermP>::new();
    pops.push(vec![Individual::new_unevaluated(vec![1usize, 0])]);
    let mut s: State<PermP> = State::new();
    s.insert(sym_random(6));
    s.insert(pops);
    let r = Component::<PermP>::execute(&RandomPermutation::from_params(2), &p, &mut s);
    assert!(r.is_ok(), "initialisation succeeds");
    {
        let ps = s.populations();
        assert!(ps.len() == 2, "initialisation pushes exactly one population");
        assert!(ps.current().len() == 2, "requested number of individuals");
        let c = ps.current();
        assert!(!c[0].is_evaluated() && !c[1].is_evaluated(), "new individuals are unevaluated");
        assert!(c[0].solution().len() == 2 && c[0].solution()[0] != c[0].solution()[1] && c[0].solution()[0] < 2 && c[0].solution()[1] < 2, "a permutation");
        assert!(ps.peek(1).len() == 1 && ps.peek(1)[0].solution()[0] == 1, "population underneath untouched");
    }
    vcover!(true, "reached");
    std::mem::forget((s, p));
}
/// @h tier=quick bound="Empty pushes one empty population" unwind=5 cost=2
#[cfg_attr(kani, kani::proof)]
#[cfg_attr(kani, kani::unwind(5))]
pub fn h_c14_empty_init() {
    let p = PermP(2);
    let mut s: State<PermP> = State::new();
    s.insert(Populations::<PermP>::new());
    let r = Component::<PermP>::execute(&Empty::from_params(), &p, &mut s);
    assert!(r.is_ok(), "Empty succeeds");
    assert!(s.populations().len() == 1 && s.populations().current().is_empty(), "Empty pushes exactly one empty population");
    vcover!(true, "reached");
    std::mem::forget((s, p));
}
