//! c14 — harnesses not written yet.
